#!/bin/sh
# Build the simulation engines from files on disk only (offline).
set -e
cd /verif/sim
export CARGO_NET_OFFLINE=true
cargo build --release --offline -p essim 2>&1 | tail -3
