#!/bin/sh
# Build the simulation engines from files on disk only (offline), then prove that the
# simulator is deterministic on a sample (same seed => same event logs, 1 vs 16 workers).
set -e
export CARGO_NET_OFFLINE=true
cd /verif/sim
cargo build --release --offline -p essim 2>&1 | tail -2
# C05 runs the same seeds in two more build configurations
cargo build --profile wrap --offline -p essim 2>&1 | tail -1
cargo build --offline -p essim 2>&1 | tail -1
# E2: Miri sysroot + dependencies of the untouched crates
cd /verif/miri-real
cargo +nightly miri setup 2>&1 | tail -1 || true
MIRIFLAGS="-Zmiri-many-seeds=0..1" cargo +nightly miri run --offline -- lock 1 2>&1 | tail -1 || true
cd /verif
./tools/selftest.sh
