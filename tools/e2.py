#!/usr/bin/env python3
"""E2 driver: run /verif/miri-real (untouched /repo crates, real rayon, real std primitives)
under Miri's seeded scheduler and fold the outcome into the property's evidence file.

  e2.py run <PROP> <quick|thorough>     PROP in C02, C05, C06 (mode checker), C04 (mode perm), C10 (mode vm) or C20 (mode lock)
  e2.py replay <file>                   re-run one recorded (workload seed, miri seed)

Exit 0 = held on everything explored, 1 = violation (prints VIOLATION line), 2 = harness error.
One Miri seed is one exactly repeatable schedule; the workload seed travels in argv.
"""
import json, os, subprocess, sys, time

ROOT = "/verif/miri-real"
FLAGS_COMMON = "-Zmiri-preemption-rate={rate}"  # isolation stays on: the clock is Miri's deterministic virtual clock
FLAGS_RAYON = " -Zmiri-tree-borrows -Zmiri-ignore-leaks"  # crossbeam-epoch needs tree borrows; pool threads outlive main

PLAN = {
    # prop: (mode, quick (workload seeds, miri seeds per workload), thorough)
    "C02": ("checker", (8, 4), (64, 8)),
    "C04": ("perm", (8, 4), (48, 8)),
    "C05": ("checker", (8, 4), (48, 8)),
    "C06": ("checker", (8, 4), (48, 8)),
    "C10": ("vm", (24, 8), (240, 16)),
    "C20": ("lock", (24, 8), (240, 16)),
}
# further modes a property runs after its first one
EXTRA = {
    "C20": [("poison", (12, 8), (120, 16))],
}


def n_parallel():
    try:
        return max(1, min(16, int(os.environ.get("VERIF_WORKERS", "16"))))
    except ValueError:
        return 16


def miri(mode, wseed, seed_lo, seed_hi, rate):
    flags = FLAGS_COMMON.format(rate=rate) + (FLAGS_RAYON if mode in ("checker", "vm", "perm") else "")
    env = dict(os.environ)
    env["MIRIFLAGS"] = f"-Zmiri-many-seeds={seed_lo}..{seed_hi} " + flags
    env["CARGO_NET_OFFLINE"] = "true"
    p = subprocess.run(["cargo", "+nightly", "miri", "run", "--offline", "--", mode, str(wseed)],
                       cwd=ROOT, env=env, stdout=subprocess.PIPE, stderr=subprocess.PIPE, text=True)
    return p.returncode, p.stdout, p.stderr, env["MIRIFLAGS"]


def verif_seed():
    try:
        return int(os.environ.get("VERIF_SEED", "1"))
    except ValueError:
        return 1


def run(prop, tier):
    rc = run_mode(prop, tier, *PLAN[prop], first=True)
    for extra in EXTRA.get(prop, []):
        if rc != 0:
            break
        rc = run_mode(prop, tier, *extra, first=False)
    return rc


def run_mode(prop, tier, mode, quick, thorough, first=True):
    n_w, n_m = quick if tier != "thorough" else thorough
    base = verif_seed() * 1000003 + {"C02": 11, "C04": 13, "C05": 17, "C06": 19, "C10": 23, "C20": 37}[prop] + (0 if first else 500)
    t0 = time.time()
    runs = 0
    oks = []
    # Workloads are independent Miri processes: the first runs alone (it also builds), the
    # rest are spread over the cores. Results are consumed in workload order, so what is
    # reported does not depend on which process finishes first.
    from concurrent.futures import ThreadPoolExecutor
    rates = [0.01, 0.05, 0.2, 0.5]
    results = {0: miri(mode, base, 0, n_m, rates[0])} if n_w > 0 else {}
    if results and results[0][0] == 0 and n_w > 1:
        with ThreadPoolExecutor(n_parallel()) as ex:
            futs = {i: ex.submit(miri, mode, base + i, 0, n_m, rates[i % 4]) for i in range(1, n_w)}
            for i, f in futs.items():
                results[i] = f.result()
    for i in sorted(results):
        wseed = base + i
        rate = rates[i % 4]
        rc, out, err, flags = results[i]
        good = [l for l in out.splitlines() if l.startswith("ok ")]
        runs += len(good)
        oks.extend(good[:1])
        if rc != 0:
            detail = [l for l in out.splitlines() if l.startswith("VIOLATION-DETAIL")]
            if not detail:
                # Miri itself objected (UB, deadlock, data race): that is a finding about the code
                # under test if it names /repo, otherwise a harness error
                tail = "\n".join(err.splitlines()[-25:])
                if "/repo/" in err or "deadlock" in err.lower() or "data race" in err.lower():
                    detail = ["VIOLATION-DETAIL miri: " + " | ".join(err.splitlines()[-6:])]
                else:
                    print("HARNESS-ERROR: E2 (miri) failed without a verdict:\n" + tail)
                    return 2
            # find the failing miri seed by running them one at a time
            failing = None
            for s in range(n_m):
                rc1, out1, err1, flags1 = miri(mode, wseed, s, s + 1, rate)
                if rc1 != 0:
                    failing = (s, flags1, (out1 + err1))
                    break
            os.makedirs("/verif/replays", exist_ok=True)
            path = f"/verif/replays/{prop}-e2-{mode}-{wseed}.json"
            doc = {"property": prop, "engine": "E2 miri-real", "mode": mode, "workload_seed": wseed,
                   "miri_seed": failing[0] if failing else None, "miriflags": failing[1] if failing else flags,
                   "class": "e2-" + mode, "message": detail[0],
                   "replay_cmd": f"cd {ROOT} && MIRIFLAGS='{failing[1] if failing else flags}' cargo +nightly miri run --offline -- {mode} {wseed}"}
            json.dump(doc, open(path, "w"), indent=1)
            print("  " + detail[0][:300])
            print(f"VIOLATION property={prop} replay={path}")
            patch_evidence(prop, tier, runs, n_w, n_m, time.time() - t0, oks, 1, mode)
            return 1
    patch_evidence(prop, tier, runs, n_w, n_m, time.time() - t0, oks, 0, mode)
    print(f"{prop} {tier} E2(miri, {mode}): {runs} executions ({n_w} workloads x {n_m} miri seeds), 0 violations, {time.time()-t0:.1f}s")
    return 0


def patch_evidence(prop, tier, runs, n_w, n_m, wall, samples, violations, mode=None):
    path = f"/verif/evidence/{prop}.json"
    try:
        ev = json.load(open(path))
    except Exception:
        return
    key = "e2_miri" if mode in (None, PLAN[prop][0]) else "e2_miri_" + mode
    ev["coverage"][key] = {
        "mode": mode or PLAN[prop][0],
        "what": "the untouched /repo crates on real rayon / real std primitives under Miri's seeded scheduler (pre-emption at basic-block granularity); removes E1's stubs (rayon-sim, atomic OnceLock, shuttle Mutex) from the trusted base on this sample",
        "executions": runs, "workload_seeds": n_w, "miri_seeds_per_workload": n_m,
        "wall_s": round(wall, 1), "violations": violations, "samples": samples[:3],
        "flags": FLAGS_COMMON + " (+" + FLAGS_RAYON.strip() + " for rayon)",
    }
    ev["wall_s"] = ev.get("wall_s", 0) + wall
    ev["violations"] = ev.get("violations", 0) + violations
    json.dump(ev, open(path, "w"), indent=1)


def replay(path):
    d = json.load(open(path))
    if d.get("miri_seed") is None:
        print("REPLAY error: no miri seed recorded")
        return 2
    env = dict(os.environ)
    env["MIRIFLAGS"] = d["miriflags"]
    p = subprocess.run(["cargo", "+nightly", "miri", "run", "--offline", "--", d["mode"], str(d["workload_seed"])],
                       cwd=ROOT, env=env, stdout=subprocess.PIPE, stderr=subprocess.STDOUT, text=True)
    if p.returncode != 0:
        print(f"REPLAY reproduced class={d['class']} " + " ".join(l for l in p.stdout.splitlines() if "VIOLATION-DETAIL" in l)[:300])
        return 1
    print("REPLAY clean: the recorded violation does not occur on this tree")
    return 0


if __name__ == "__main__":
    if len(sys.argv) >= 4 and sys.argv[1] == "run":
        sys.exit(run(sys.argv[2], sys.argv[3]))
    if len(sys.argv) >= 3 and sys.argv[1] == "replay":
        sys.exit(replay(sys.argv[2]))
    print(__doc__)
    sys.exit(2)
