#!/bin/bash
# validate_seeded.sh <worktree> <N> <crate> : confirm an agent-made change in its own scratch worktree:
#  the test suite passes with it, the demo fails with it, the demo passes without it.
wt=$1; n=$2; crate=$3
cd "$wt" || exit 2
export CARGO_TARGET_DIR=$wt/target CARGO_NET_OFFLINE=true
git checkout -q -- . ; git clean -fdq crates
demo=$(ls out/$n/*.rs | head -1); name=$(basename "$demo" .rs)
git apply out/$n/patch.diff || { echo "RESULT $wt $n: patch does not apply"; exit 1; }
suite=$(cargo test --workspace --no-fail-fast --offline 2>&1 | grep -E "^test result" | awk '{p+=$4; f+=$6} END {print p" passed "f" failed"}')
mkdir -p crates/$crate/tests; cp "$demo" crates/$crate/tests/$name.rs
cargo test --offline -p essential-$crate --test $name >/tmp/demo_with_$$.log 2>&1; with=$?
git checkout -q -- . 
cargo test --offline -p essential-$crate --test $name >/tmp/demo_without_$$.log 2>&1; without=$?
rm -f crates/$crate/tests/$name.rs
echo "RESULT $wt $n: suite_with_change=[$suite] demo_with_change_exit=$with demo_pristine_exit=$without"
