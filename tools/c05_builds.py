#!/usr/bin/env python3
"""C05, build-configuration dimension: the same seeds in three builds — optimised with
overflow checks (the main run), optimised with wrapping arithmetic, dev (debug assertions) —
must give the same observable outcome per case. A wrapped addition that is silent in one
build shows up as a divergence.

  c05_builds.py run <quick|thorough>
  c05_builds.py replay <file>
"""
import json, os, subprocess, sys, time

SIM = "/verif/sim"
BINS = {"checked": f"{SIM}/target/release/essim", "wrapping": f"{SIM}/target/wrap/essim", "dev": f"{SIM}/target/debug/essim"}
PLAN = {"quick": [("c05-total", 12000, 1), ("c05-enum3", 12000, 20)], "thorough": [("c05-total", 300000, 1), ("c05-enum3", 249856, 1)]}


def build():
    env = dict(os.environ, CARGO_NET_OFFLINE="true")
    for prof in (["--profile", "wrap"], []):
        p = subprocess.run(["cargo", "build", "--offline", "-p", "essim"] + prof, cwd=SIM, env=env,
                           stdout=subprocess.PIPE, stderr=subprocess.STDOUT, text=True)
        if p.returncode != 0:
            print(p.stdout[-2000:])
            print("HARNESS-ERROR: build of profile", prof or "dev", "failed")
            sys.exit(2)


def outcomes(binary, batch, n, stride, lo=0):
    p = subprocess.run([binary, "outcomes", "C05", batch, str(n), str(stride)], stdout=subprocess.PIPE, stderr=subprocess.DEVNULL, text=True)
    if p.returncode != 0:
        return None
    return [l.split(" ", 2) for l in p.stdout.splitlines() if l and l[0].isdigit()]


def run(tier):
    t0 = time.time()
    build()
    compared = 0
    from concurrent.futures import ThreadPoolExecutor
    for batch, n, stride in PLAN["thorough" if tier == "thorough" else "quick"]:
        with ThreadPoolExecutor(3) as ex:
            res = dict(zip(BINS, ex.map(lambda b: outcomes(BINS[b], batch, n, stride), BINS)))
        if any(v is None for v in res.values()):
            print("HARNESS-ERROR: an outcomes run failed:", {k: v is None for k, v in res.items()})
            return 2
        base = res["checked"]
        for other in ("wrapping", "dev"):
            for a, b in zip(base, res[other]):
                compared += 1
                if a[1] != b[1]:
                    path = f"/verif/replays/C05-builds-{batch}-{a[0]}.json"
                    os.makedirs("/verif/replays", exist_ok=True)
                    json.dump({"property": "C05", "engine": "E1 essim, three builds", "class": "build-divergence", "batch": batch,
                               "case": int(a[0]), "builds": ["checked", other], "hashes": [a[1], b[1]],
                               "message": f"case {a[0]} of {batch}: outcome differs between the checked and the {other} build"}, open(path, "w"), indent=1)
                    print(f"  class=build-divergence batch={batch} case={a[0]}: checked build {a[1]} ({a[2] if len(a)>2 else ''}), {other} build {b[1]}")
                    print(f"VIOLATION property=C05 replay={path}")
                    patch(tier, compared, time.time() - t0, 1)
                    return 1
    patch(tier, compared, time.time() - t0, 0)
    print(f"C05 {tier} three builds: {compared} case comparisons (checked vs wrapping, checked vs dev), 0 divergences, {time.time()-t0:.1f}s")
    return 0


def patch(tier, compared, wall, violations):
    path = "/verif/evidence/C05.json"
    try:
        ev = json.load(open(path))
    except Exception:
        return
    ev["coverage"]["three_builds"] = {"what": "the same seeds run in three build configurations (optimised + overflow-checks, optimised wrapping, dev with debug assertions); per-case outcome hashes must agree",
                                      "case_comparisons": compared, "divergences": violations, "wall_s": round(wall, 1)}
    ev["wall_s"] = ev.get("wall_s", 0) + wall
    ev["violations"] = ev.get("violations", 0) + violations
    json.dump(ev, open(path, "w"), indent=1)


def replay(path):
    d = json.load(open(path))
    build()
    hs = {}
    for b in d["builds"]:
        r = outcomes(BINS[b], d["batch"], 1, 1) if d["case"] == 0 else None
        # run exactly that case: outcomes <n=case+1> and take the last line
        r = outcomes(BINS[b], d["batch"], d["case"] + 1, 1)
        hs[b] = r[-1][1] if r else None
    if len(set(hs.values())) > 1:
        print(f"REPLAY reproduced class=build-divergence {hs}")
        return 1
    print("REPLAY clean: the builds agree on this case")
    return 0


if __name__ == "__main__":
    if len(sys.argv) >= 3 and sys.argv[1] == "run":
        sys.exit(run(sys.argv[2]))
    if len(sys.argv) >= 3 and sys.argv[1] == "replay":
        sys.exit(replay(sys.argv[2]))
    print(__doc__)
    sys.exit(2)
