#!/bin/bash
# try_mutant.sh <patch.diff> <PROP> [PROP...] : apply a seeded change to /repo, run the quick
# checks, undo it straight afterwards. Prints one line per property.
patch=$1; shift
cd /repo || exit 2
if ! git diff --quiet; then echo "/repo has uncommitted changes"; exit 2; fi
git apply "$patch" || { echo "patch does not apply: $patch"; exit 2; }
for p in "$@"; do
  out=$(cd /verif && timeout 1500 ./check $p quick 2>&1); rc=$?
  v=$(echo "$out" | grep -c "^VIOLATION")
  cls=$(echo "$out" | grep "class=" | sed 's/^ *//' | cut -c1-160 | head -3 | tr '\n' ';')
  echo "MUTANT $(basename $(dirname $patch))/$(basename $(dirname $(dirname $(dirname $patch)))) prop=$p exit=$rc violations=$v $cls"
done
git checkout -q -- .
git -C /verif checkout -q -- evidence replays 2>/dev/null; git -C /verif clean -fdq replays
