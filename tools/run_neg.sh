#!/bin/bash
# run_neg.sh <neg-id> <PROP>... : apply a behaviour-preserving change (negative control) from
# /verif/seeded-neg to /repo, run the quick checks of the named properties, undo it. Every
# check must exit 0: a VIOLATION or a harness error on such a change is a defect of the machinery.
id=$1; shift
cd /verif || exit 2
if ! git -C /repo diff --quiet; then echo "/repo has uncommitted changes"; exit 2; fi
git -C /repo apply /verif/seeded-neg/$id/patch.diff || { echo "NEG $id: patch does not apply"; exit 2; }
bad=0
for p in "$@"; do
  out=$(timeout 3000 ./check $p quick 2>&1); rc=$?
  if [ $rc -eq 0 ]; then echo "NEG $id $p: silent (ok)"; else bad=$((bad+1)); echo "NEG $id $p: ALARM exit=$rc $(echo "$out" | grep -E "class=|VIOLATION|HARNESS|error" | head -4 | tr '\n' ';' | cut -c1-600)"; fi
done
git -C /repo reset -q --hard HEAD
git -C /verif checkout -q -- evidence replays 2>/dev/null; git -C /verif clean -fdq replays
exit $bad
