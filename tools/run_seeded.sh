#!/bin/bash
# run_seeded.sh [id…] : regression over the seeded changes under /verif/seeded — apply each to
# /repo, run the quick check of the property it breaks, undo it. A change that is not reported
# (exit != 1) is printed as MISSED. /repo must be clean.
cd /verif || exit 2
ids=("$@"); [ ${#ids[@]} -eq 0 ] && ids=($(ls seeded))
missed=0
for id in "${ids[@]}"; do
  prop=${id%%-*}
  if ! git -C /repo diff --quiet; then echo "/repo has uncommitted changes"; exit 2; fi
  if ! git -C /repo apply --3way /verif/seeded/$id/patch.diff 2>/dev/null && ! git -C /repo apply /verif/seeded/$id/patch.diff; then
    echo "SEEDED $id: patch does not apply"; missed=$((missed+1)); git -C /repo checkout -q -- . ; continue
  fi
  out=$(timeout 2400 ./check $prop quick 2>&1); rc=$?
  git -C /repo reset -q --hard HEAD
  # evidence and replay files written while a change was applied say nothing about /repo itself
  git -C /verif checkout -q -- evidence replays 2>/dev/null; git -C /verif clean -fdq replays
  cls=$(echo "$out" | grep -E "class=|VIOLATION-DETAIL" | sed 's/^ *//' | cut -c1-110 | head -2 | tr '\n' ';')
  if [ $rc -eq 1 ]; then echo "SEEDED $id: caught ($cls)"; else echo "SEEDED $id: MISSED exit=$rc $(echo "$out" | tail -2 | tr '\n' ' ' | cut -c1-200)"; missed=$((missed+1)); fi
done
echo "seeded changes not reported: $missed"
exit $missed
