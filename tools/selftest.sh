#!/bin/sh
# Determinism proof: every property's first cases, run twice in separate processes with
# different worker counts; the per-case digests (verdicts, event-log hashes, interleaving
# hashes) must be identical. Any difference is a harness error (exit 2).
set -u
E=/verif/sim/target/release/essim
rc=0
for p in C01 C02 C03 C04 C05 C06 C07 C10 C11 C20; do
    a=$($E digest $p 400 1 2>/dev/null | tail -1)
    b=$($E digest $p 400 7 2>/dev/null | tail -1)
    if [ -z "$a" ] || [ "$a" != "$b" ]; then
        echo "HARNESS-ERROR: selftest: $p is not deterministic: [$a] vs [$b]"
        rc=2
    else
        echo "selftest $p: $a"
    fi
done
# shim fidelity: rayon-sim against the real rayon on the call shapes of the tree
if (cd /verif/sim && cargo test -p rayon@1.10.0 --release --offline 2>&1 | grep -q "test result: ok. 3 passed"); then
    echo "selftest rayon-sim conformance: ok"
else
    echo "HARNESS-ERROR: selftest: rayon-sim conformance test failed"
    rc=2
fi
exit $rc
