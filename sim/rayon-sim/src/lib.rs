//! Simulator stand-in for the `rayon` crate (seam S5 of /verif/DESIGN.md).
//!
//! Every parallel region of the code under test becomes a set of simulated tasks whose
//! start order, overlap and (for short-circuiting consumers) cancellation are decided by
//! the shuttle scheduler of the enclosing execution — or runs inline, in index order, in
//! sequential mode. See `iter.rs` for the semantics kept.
#![allow(clippy::type_complexity)]

pub mod iter;
pub mod sim;

pub mod prelude {
    pub use crate::iter::{
        FromParallelIterator, IndexedParallelIterator, IntoParallelIterator,
        IntoParallelRefIterator, IntoParallelRefMutIterator, ParallelBridge, ParallelExtend,
        ParallelIterator, ParallelSlice, ParallelSliceMut,
    };
}

pub mod slice {
    pub use crate::iter::{ParallelSlice, ParallelSliceMut};
}

use std::panic::{catch_unwind, resume_unwind, AssertUnwindSafe};
use std::sync::Mutex;

/// `rayon::iter::Either`
#[derive(Clone, Copy, Debug, PartialEq, Eq)]
pub enum Either<L, R> {
    Left(L),
    Right(R),
}

/// Number of workers of the simulated pool.
pub fn current_num_threads() -> usize {
    sim::workers()
}

/// Index of the current worker within the simulated pool: `None` outside parallel regions,
/// `Some(i)`, `i < current_num_threads()`, inside (worker `j` of a region started by the worker
/// with index `c` has index `(c + j) % k` — the caller takes part in its own region, as in
/// rayon; two workers of the same region never share an index).
pub fn current_thread_index() -> Option<usize> {
    sim::thread_index()
}

/// `rayon::Yield`
#[derive(Clone, Copy, Debug, PartialEq, Eq)]
pub enum Yield {
    Executed,
    Idle,
}

/// `rayon::yield_now`: a scheduling point.
pub fn yield_now() -> Option<Yield> {
    sim::switch_point();
    sim::thread_index().map(|_| Yield::Idle)
}
/// `rayon::yield_local`
pub fn yield_local() -> Option<Yield> {
    yield_now()
}

/// `rayon::max_num_threads`
pub fn max_num_threads() -> usize {
    1 << 16
}

/// `rayon::spawn`: fire-and-forget work. In sequential mode it runs at once; under the
/// simulated scheduler it is a task of its own that runs at any later point (the execution
/// does not end before it has finished).
pub fn spawn<F>(f: F)
where
    F: FnOnce() + Send + 'static,
{
    if sim::mode() == sim::Mode::Sequential {
        f();
    } else {
        shuttle::thread::spawn(move || {
            sim::switch_point();
            f()
        });
    }
}
/// `rayon::spawn_fifo`
pub fn spawn_fifo<F>(f: F)
where
    F: FnOnce() + Send + 'static,
{
    spawn(f)
}

/// `rayon::in_place_scope` / `rayon::scope_fifo` / `rayon::in_place_scope_fifo`
pub fn in_place_scope<'scope, OP, R>(op: OP) -> R
where
    OP: FnOnce(&Scope<'scope>) -> R + Send,
    R: Send,
{
    scope(op)
}
pub fn scope_fifo<'scope, OP, R>(op: OP) -> R
where
    OP: FnOnce(&Scope<'scope>) -> R + Send,
    R: Send,
{
    scope(op)
}

/// Two closures that may run in either order or overlapped.
pub fn join<A, B, RA, RB>(oper_a: A, oper_b: B) -> (RA, RB)
where
    A: FnOnce() -> RA + Send,
    B: FnOnce() -> RB + Send,
    RA: Send,
    RB: Send,
{
    if sim::mode() == sim::Mode::Sequential {
        let a = oper_a();
        let b = oper_b();
        return (a, b);
    }
    let ra = Mutex::new(None);
    let rb = Mutex::new(None);
    shuttle::thread::scope(|s| {
        s.spawn(|| {
            sim::switch_point();
            *ra.lock().unwrap() = Some(catch_unwind(AssertUnwindSafe(oper_a)));
        });
        s.spawn(|| {
            sim::switch_point();
            *rb.lock().unwrap() = Some(catch_unwind(AssertUnwindSafe(oper_b)));
        });
    });
    let a = ra.into_inner().unwrap().expect("join task a ran");
    let b = rb.into_inner().unwrap().expect("join task b ran");
    match (a, b) {
        (Ok(a), Ok(b)) => (a, b),
        (Err(p), _) | (_, Err(p)) => resume_unwind(p),
    }
}

/// `rayon::Scope`: spawned closures run as simulated tasks before `scope` returns.
pub struct Scope<'scope> {
    pending: Mutex<Vec<Box<dyn FnOnce(&Scope<'scope>) + Send + 'scope>>>,
}

impl<'scope> Scope<'scope> {
    pub fn spawn<F>(&self, f: F)
    where
        F: FnOnce(&Scope<'scope>) + Send + 'scope,
    {
        self.pending.lock().unwrap().push(Box::new(f));
    }
}

/// `rayon::scope`. Spawned work is collected and then run as one region (rounds repeat while
/// tasks spawn further tasks). This delays spawned work until the scope body has returned,
/// which is one of the schedules real rayon allows.
pub fn scope<'scope, OP, R>(op: OP) -> R
where
    OP: FnOnce(&Scope<'scope>) -> R + Send,
    R: Send,
{
    use prelude::*;
    let sc = Scope {
        pending: Mutex::new(Vec::new()),
    };
    let r = op(&sc);
    loop {
        let batch: Vec<_> = std::mem::take(&mut *sc.pending.lock().unwrap());
        if batch.is_empty() {
            break;
        }
        let cells: Vec<Mutex<Option<Box<dyn FnOnce(&Scope<'scope>) + Send + 'scope>>>> =
            batch.into_iter().map(|b| Mutex::new(Some(b))).collect();
        let sc_ref = &sc;
        let cells_ref = &cells;
        (0..cells.len()).into_par_iter().for_each(move |i| {
            let f = cells_ref[i].lock().unwrap().take().expect("task taken once");
            f(sc_ref)
        });
    }
    r
}

#[derive(Debug)]
pub struct ThreadPoolBuildError;
impl std::fmt::Display for ThreadPoolBuildError {
    fn fmt(&self, f: &mut std::fmt::Formatter<'_>) -> std::fmt::Result {
        f.write_str("thread pool build error")
    }
}
impl std::error::Error for ThreadPoolBuildError {}

/// `rayon::ThreadPoolBuilder`: only the worker count matters to the simulation.
#[derive(Default, Debug)]
pub struct ThreadPoolBuilder {
    n: usize,
}
impl ThreadPoolBuilder {
    pub fn new() -> Self {
        Self::default()
    }
    pub fn num_threads(mut self, n: usize) -> Self {
        self.n = n;
        self
    }
    pub fn thread_name<F>(self, _f: F) -> Self
    where
        F: FnMut(usize) -> String + 'static,
    {
        self
    }
    pub fn stack_size(self, _s: usize) -> Self {
        self
    }
    pub fn build(self) -> Result<ThreadPool, ThreadPoolBuildError> {
        Ok(ThreadPool {
            n: if self.n == 0 { sim::workers() } else { self.n },
        })
    }
    pub fn build_global(self) -> Result<(), ThreadPoolBuildError> {
        if self.n != 0 {
            sim::set_workers(self.n);
        }
        Ok(())
    }
}

/// `rayon::ThreadPool`
#[derive(Debug)]
pub struct ThreadPool {
    n: usize,
}
impl ThreadPool {
    pub fn install<OP, R>(&self, op: OP) -> R
    where
        OP: FnOnce() -> R + Send,
        R: Send,
    {
        let old = sim::workers();
        sim::set_workers(self.n);
        // `install` runs the closure on one of the pool's threads
        let me = sim::thread_index().unwrap_or(0) % self.n.max(1);
        let r = catch_unwind(AssertUnwindSafe(|| sim::as_pool_worker(me, op)));
        sim::set_workers(old);
        match r {
            Ok(r) => r,
            Err(p) => resume_unwind(p),
        }
    }
    pub fn current_num_threads(&self) -> usize {
        self.n
    }
    pub fn join<A, B, RA, RB>(&self, a: A, b: B) -> (RA, RB)
    where
        A: FnOnce() -> RA + Send,
        B: FnOnce() -> RB + Send,
        RA: Send,
        RB: Send,
    {
        self.install(|| join(a, b))
    }
    pub fn scope<'scope, OP, R>(&self, op: OP) -> R
    where
        OP: FnOnce(&Scope<'scope>) -> R + Send,
        R: Send,
    {
        self.install(|| scope(op))
    }
    pub fn spawn<F>(&self, f: F)
    where
        F: FnOnce() + Send + 'static,
    {
        spawn(f)
    }
    pub fn current_thread_index(&self) -> Option<usize> {
        current_thread_index()
    }
    pub fn yield_now(&self) -> Option<Yield> {
        yield_now()
    }
}
