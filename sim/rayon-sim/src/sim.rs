//! Control surface of the simulator's rayon stand-in.
//!
//! All state is per OS thread: one shuttle execution runs entirely on the OS
//! thread that started it, so OS-thread-local state is execution-local state
//! shared by every simulated task of that execution.

use std::cell::{Cell, RefCell};

/// How parallel regions are executed.
#[derive(Clone, Copy, Debug, PartialEq, Eq)]
pub enum Mode {
    /// Items run inline on the caller in index order, stopping where a
    /// sequential iterator would stop ("evaluating everything sequentially").
    Sequential,
    /// Items run as shuttle tasks; the shuttle scheduler decides everything.
    Shuttle,
}

/// Per-execution statistics kept by the shim.
#[derive(Clone, Debug, Default)]
pub struct Stats {
    /// parallel regions entered
    pub regions: u64,
    /// regions with two or more items (a real interleaving choice exists)
    pub regions_multi: u64,
    /// items started
    pub items: u64,
    /// items skipped after a short-circuit (rayon's `while_some`)
    pub skipped: u64,
    /// short-circuiting regions in which more than one error arrived
    pub multi_error_regions: u64,
    /// items that started while another item of the same region was running
    pub overlaps: u64,
    /// items that started out of index order
    pub out_of_order_starts: u64,
    /// explicit switch points hit (seams, hooks, worker loop)
    pub switch_points: u64,
    /// FNV-1a hash over the sequence of (start|finish, region number, index) events
    pub order_hash: u64,
    /// max simultaneously running items over all regions
    pub max_in_flight: u64,
}

thread_local! {
    static MODE: Cell<Mode> = const { Cell::new(Mode::Sequential) };
    static WORKERS: Cell<usize> = const { Cell::new(4) };
    static STATS: RefCell<Stats> = RefCell::new(Stats { order_hash: FNV_OFFSET, ..Default::default() });
    static ITEM_BUDGET: Cell<u64> = const { Cell::new(u64::MAX) };
    /// worker index per simulated task (keyed by shuttle's task id); sequential mode uses SEQ_TIDX
    static TIDX: RefCell<std::collections::HashMap<shuttle::thread::ThreadId, usize>> = RefCell::new(std::collections::HashMap::new());
    static SEQ_TIDX: Cell<Option<usize>> = const { Cell::new(None) };
}

/// Worker index of the calling task (see `rayon::current_thread_index`).
pub fn thread_index() -> Option<usize> {
    if mode() == Mode::Sequential {
        return SEQ_TIDX.with(|c| c.get());
    }
    let id = shuttle::thread::current().id();
    TIDX.with(|m| m.borrow().get(&id).copied())
}

/// Run `f` the way code runs that was called from inside the pool (`pool.install`, a
/// `par_iter` closure, …): `rayon::current_thread_index()` is `Some(idx)`.
pub fn as_pool_worker<R>(idx: usize, f: impl FnOnce() -> R) -> R {
    with_thread_index(idx, f)
}

/// Run `f` as pool worker `idx` (restores the previous index afterwards).
pub(crate) fn with_thread_index<R>(idx: usize, f: impl FnOnce() -> R) -> R {
    if mode() == Mode::Sequential {
        let old = SEQ_TIDX.with(|c| c.replace(Some(idx)));
        struct Restore(Option<usize>);
        impl Drop for Restore {
            fn drop(&mut self) {
                SEQ_TIDX.with(|c| c.set(self.0));
            }
        }
        let _r = Restore(old);
        return f();
    }
    let id = shuttle::thread::current().id();
    let old = TIDX.with(|m| m.borrow_mut().insert(id, idx));
    struct Restore(shuttle::thread::ThreadId, Option<usize>);
    impl Drop for Restore {
        fn drop(&mut self) {
            TIDX.with(|m| match self.1 {
                Some(o) => {
                    m.borrow_mut().insert(self.0, o);
                }
                None => {
                    m.borrow_mut().remove(&self.0);
                }
            });
        }
    }
    let _r = Restore(id, old);
    f()
}

const FNV_OFFSET: u64 = 0xcbf29ce484222325;
const FNV_PRIME: u64 = 0x100000001b3;

/// Panic payload used when the per-execution item budget is exhausted.
#[derive(Debug)]
pub struct BudgetExceeded;

/// Select the execution mode for the current OS thread.
pub fn set_mode(m: Mode) {
    MODE.with(|c| c.set(m));
}
/// Current mode.
pub fn mode() -> Mode {
    MODE.with(|c| c.get())
}
/// Set the simulated pool size (1..).
pub fn set_workers(k: usize) {
    WORKERS.with(|c| c.set(k.max(1)));
}
/// Simulated pool size.
pub fn workers() -> usize {
    WORKERS.with(|c| c.get())
}
/// Bound the number of items an execution may start (guards astronomically large regions).
pub fn set_item_budget(n: u64) {
    ITEM_BUDGET.with(|c| c.set(n));
}
/// Reset statistics (call before each execution).
pub fn reset_stats() {
    TIDX.with(|m| m.borrow_mut().clear());
    SEQ_TIDX.with(|c| c.set(None));
    STATS.with(|s| {
        *s.borrow_mut() = Stats {
            order_hash: FNV_OFFSET,
            ..Default::default()
        }
    });
}
/// Take a copy of the statistics.
pub fn stats() -> Stats {
    STATS.with(|s| s.borrow().clone())
}

/// A scheduling point: under shuttle another task may run here. No-op in sequential mode.
/// `sleep`, not `yield_now`: a yield makes PCT demote the caller.
pub fn switch_point() {
    if mode() == Mode::Shuttle {
        STATS.with(|s| s.borrow_mut().switch_points += 1);
        shuttle::thread::sleep(std::time::Duration::from_secs(0));
    }
}

pub(crate) fn with_stats<R>(f: impl FnOnce(&mut Stats) -> R) -> R {
    STATS.with(|s| f(&mut s.borrow_mut()))
}

pub(crate) fn hash_event(kind: u8, region: u64, idx: usize) {
    with_stats(|s| {
        let mut h = s.order_hash;
        for b in [kind as u64, region, idx as u64] {
            h ^= b;
            h = h.wrapping_mul(FNV_PRIME);
        }
        s.order_hash = h;
    });
}

pub(crate) fn charge_item() {
    ITEM_BUDGET.with(|c| {
        let v = c.get();
        if v == 0 {
            std::panic::panic_any(BudgetExceeded);
        }
        if v != u64::MAX {
            c.set(v - 1);
        }
    });
}

