#![allow(unused_variables)]
//! Parallel iterators of the rayon stand-in.
//!
//! A parallel iterator is a set of *base indices* `0..base_len()`; `pull(i, sink)`
//! produces the items of base index `i` (exactly one for indexed iterators, zero or
//! more after `filter`/`flat_map_iter`). A terminal operation hands the iterator to
//! the region engine (`execute`), which runs every base index as one unit of work —
//! inline in sequential mode, on simulated worker tasks under shuttle otherwise.
//!
//! Only rayon's *documented* guarantees are kept: ordered consumers (`collect` into a
//! `Vec`, `partition`, `unzip`, `zip`/`enumerate` pairing …) see items in index order;
//! everything done *inside* closures (and `find_any`, the error kept by a
//! `Result` collect, what is skipped after a short-circuit) follows the schedule.

pub use crate::Either;
use crate::sim::{self, Mode};
use std::collections::{BTreeMap, BTreeSet, HashMap, HashSet};
use std::hash::{BuildHasher, Hash};
use std::panic::{catch_unwind, resume_unwind, AssertUnwindSafe};
use std::sync::Mutex;

/// Above this many base indices a region hands out indices in order instead of
/// materialising the set of unstarted indices (a range of 2^62 items must stay lazy).
const RANDOM_START_CAP: usize = 1 << 16;

// ---------------------------------------------------------------------------------
// engine

/// Identity of the unit that processes a run of items one after another (a rayon *job*):
/// `map_with`/`map_init` state is created once per job and reused for its items. In the
/// simulation a job is one worker task of one region (in sequential mode: the region).
#[derive(Clone, Copy, Debug, PartialEq, Eq, Hash)]
pub struct Ctx(pub u64);

struct Slot<T> {
    arrival: u64,
    items: Vec<T>,
}

struct Shared<T> {
    remaining: Vec<usize>,
    cursor: usize,
    len: usize,
    lazy: bool,
    results: Vec<Option<Slot<T>>>,
    lazy_results: BTreeMap<usize, Slot<T>>,
    arrivals: u64,
    stopped: bool,
    stops: u64,
    running: u64,
    last_started: Option<usize>,
    leavers: u32,
    workers: usize,
    panic: Option<Box<dyn std::any::Any + Send>>,
}

pub(crate) struct RegionOut<T> {
    /// per base index in index order: (arrival number, items); skipped indices absent
    pub slots: Vec<(usize, u64, Vec<T>)>,
}

impl<T> RegionOut<T> {
    pub fn into_ordered(self) -> impl Iterator<Item = T> {
        self.slots.into_iter().flat_map(|(_, _, v)| v)
    }
    pub fn into_arrival_order(mut self) -> impl Iterator<Item = T> {
        self.slots.sort_by_key(|(_, a, _)| *a);
        self.slots.into_iter().flat_map(|(_, _, v)| v)
    }
}

/// Run all base indices of `p`. `short(item)` returning true requests a short-circuit
/// (rayon's `while_some`/`find_any` behaviour): work that has not started yet may be
/// skipped, work already running completes.
pub(crate) fn execute<P: ParallelIterator>(
    p: &P,
    short: Option<&(dyn Fn(&P::Item) -> bool + Sync)>,
) -> RegionOut<P::Item> {
    let n = p.base_len();
    let region = sim::with_stats(|s| {
        s.regions += 1;
        if n >= 2 {
            s.regions_multi += 1;
        }
        s.regions
    });

    if sim::mode() == Mode::Sequential || n == 0 {
        // the sequential reference: index order, stop where a sequential iterator stops
        let mut slots = Vec::new();
        let mut arrival = 0u64;
        let ctx = Ctx(region << 20);
        let me = sim::thread_index().unwrap_or(0);
        return sim::with_thread_index(me, || {
        'outer: for i in 0..n {
            sim::charge_item();
            sim::with_stats(|s| s.items += 1);
            let mut v = Vec::new();
            let mut stop = false;
            p.pull(ctx, i, &mut |x| {
                if let Some(sh) = short {
                    if sh(&x) {
                        stop = true;
                    }
                }
                v.push(x)
            });
            slots.push((i, arrival, v));
            arrival += 1;
            if stop {
                break 'outer;
            }
        }
        RegionOut { slots }
        });
    }

    let lazy = n > RANDOM_START_CAP;
    let shared = Mutex::new(Shared::<P::Item> {
        remaining: if lazy { Vec::new() } else { (0..n).rev().collect() },
        cursor: 0,
        len: n,
        lazy,
        results: if lazy {
            Vec::new()
        } else {
            (0..n).map(|_| None).collect()
        },
        lazy_results: BTreeMap::new(),
        arrivals: 0,
        stopped: false,
        stops: 0,
        running: 0,
        last_started: None,
        leavers: 0,
        workers: sim::workers().min(n).max(1),
        panic: None,
    });
    let k = sim::workers().min(n).max(1);

    let next_worker = std::sync::atomic::AtomicU64::new(1);
    let caller_index = sim::thread_index().unwrap_or(0);
    let pool = sim::workers().max(1);
    let worker = || {
        let w = next_worker.fetch_add(1, std::sync::atomic::Ordering::Relaxed);
        let ctx = Ctx((region << 20) | w);
        sim::with_thread_index((caller_index + (w as usize - 1)) % pool, || {
        loop {
        sim::switch_point();
        // pick the next base index to start (the scheduler decides which)
        let idx = {
            let mut sh = shared.lock().unwrap();
            if sh.panic.is_some() {
                break;
            }
            if sh.stopped && (rand_u64() & 1) == 0 {
                // after a short-circuit this worker takes no further work; whatever has not
                // started by the time every worker has left is skipped (rayon: remaining items
                // may be skipped). The coin per pick lets some late starters still run.
                sh.leavers += 1;
                if sh.leavers as usize >= sh.workers {
                    let left = if sh.lazy {
                        (sh.len - sh.cursor) as u64
                    } else {
                        sh.remaining.len() as u64
                    };
                    sim::with_stats(|s| s.skipped = s.skipped.saturating_add(left.min(1 << 20)));
                }
                break;
            }
            let idx = if sh.lazy {
                if sh.cursor >= sh.len {
                    break;
                }
                sh.cursor += 1;
                sh.cursor - 1
            } else {
                let m = sh.remaining.len();
                if m == 0 {
                    break;
                }
                // `remaining` is stored reversed so that choice 0 = lowest index
                let j = if m == 1 {
                    0
                } else {
                    (rand_u64() % m as u64) as usize
                };
                let pos = m - 1 - j;
                sh.remaining.remove(pos)
            };
            if sh.running > 0 {
                sim::with_stats(|s| s.overlaps += 1);
            }
            if let Some(last) = sh.last_started {
                if idx < last {
                    sim::with_stats(|s| s.out_of_order_starts += 1);
                }
            }
            sh.last_started = Some(idx);
            sh.running += 1;
            let r = sh.running;
            sim::with_stats(|s| {
                s.items += 1;
                if r > s.max_in_flight {
                    s.max_in_flight = r;
                }
            });
            idx
        };
        sim::hash_event(1, region, idx);
        let res = catch_unwind(AssertUnwindSafe(|| {
            sim::charge_item();
            let mut v = Vec::new();
            let mut stop = false;
            p.pull(ctx, idx, &mut |x| {
                if let Some(sh) = short {
                    if sh(&x) {
                        stop = true;
                    }
                }
                v.push(x)
            });
            (v, stop)
        }));
        sim::hash_event(2, region, idx);
        let mut sh = shared.lock().unwrap();
        sh.running -= 1;
        match res {
            Ok((items, stop)) => {
                let arrival = sh.arrivals;
                sh.arrivals += 1;
                if stop {
                    sh.stopped = true;
                    sh.stops += 1;
                }
                let slot = Slot { arrival, items };
                if sh.lazy {
                    sh.lazy_results.insert(idx, slot);
                } else {
                    sh.results[idx] = Some(slot);
                }
            }
            Err(payload) => {
                if sh.panic.is_none() {
                    sh.panic = Some(payload);
                }
            }
        }
        }
        })
    };

    shuttle::thread::scope(|s| {
        for _ in 0..k {
            s.spawn(&worker);
        }
    });

    let mut sh = shared.into_inner().unwrap();
    if let Some(payload) = sh.panic.take() {
        resume_unwind(payload);
    }
    if sh.stops > 1 {
        sim::with_stats(|s| s.multi_error_regions += 1);
    }
    let slots = if sh.lazy {
        sh.lazy_results
            .into_iter()
            .map(|(i, s)| (i, s.arrival, s.items))
            .collect()
    } else {
        sh.results
            .into_iter()
            .enumerate()
            .filter_map(|(i, s)| s.map(|s| (i, s.arrival, s.items)))
            .collect()
    };
    RegionOut { slots }
}

fn rand_u64() -> u64 {
    use shuttle::rand::Rng;
    shuttle::rand::thread_rng().gen::<u64>()
}

/// rayon splits a region into adjacent groups of items and combines them pairwise in a tree
/// whose shape depends on the pool and on work stealing; `identity()` may be used any number
/// of times. In sequential mode there is one group and a left fold.
fn random_group_bounds(n: usize) -> Vec<usize> {
    // returns the end index (exclusive) of every group, the last one being n
    let mut ends = Vec::new();
    if n == 0 {
        return ends;
    }
    if sim::mode() == Mode::Sequential {
        ends.push(n);
        return ends;
    }
    let bits = rand_u64();
    // small regions: any adjacent split; large ones: a handful of cut points
    if n <= 64 {
        for i in 1..n {
            if (bits >> (i % 64)) & 1 == 1 {
                ends.push(i);
            }
        }
    } else {
        let cuts = (bits % 8) as usize;
        let mut c: Vec<usize> = (0..cuts).map(|_| 1 + (rand_u64() as usize) % (n - 1)).collect();
        c.sort_unstable();
        c.dedup();
        ends.extend(c);
    }
    ends.push(n);
    ends
}

/// Combine adjacent values pairwise in a random tree shape (index order of the operands is
/// kept: only associativity is assumed, as rayon documents for `reduce`).
fn tree_reduce<T>(mut v: Vec<T>, op: &dyn Fn(T, T) -> T, identity: &dyn Fn() -> T) -> T {
    if sim::mode() == Mode::Sequential {
        return v.into_iter().fold(identity(), op);
    }
    if v.is_empty() {
        return identity();
    }
    // identities may be mixed in at either end of any group
    if rand_u64() & 3 == 0 {
        v.insert(0, identity());
    }
    if rand_u64() & 3 == 0 {
        v.push(identity());
    }
    while v.len() > 1 {
        let i = (rand_u64() as usize) % (v.len() - 1);
        let a = v.remove(i);
        let b = v.remove(i);
        v.insert(i, op(a, b));
    }
    v.pop().expect("one value left")
}

/// `Option`/`Result`, for the `try_*` consumers (rayon keeps its own private trait as well).
pub trait TryLike: Sized {
    type Output;
    fn from_output(o: Self::Output) -> Self;
    fn branch(self) -> Result<Self::Output, Self>;
}
impl<T> TryLike for Option<T> {
    type Output = T;
    fn from_output(o: T) -> Self {
        Some(o)
    }
    fn branch(self) -> Result<T, Self> {
        match self {
            Some(t) => Ok(t),
            None => Err(None),
        }
    }
}
impl<T, E> TryLike for Result<T, E> {
    type Output = T;
    fn from_output(o: T) -> Self {
        Ok(o)
    }
    fn branch(self) -> Result<T, Self> {
        match self {
            Ok(t) => Ok(t),
            Err(e) => Err(Err(e)),
        }
    }
}

// ---------------------------------------------------------------------------------
// traits

/// The stand-in for `rayon::iter::ParallelIterator`.
pub trait ParallelIterator: Sized + Send + Sync {
    /// Item type.
    type Item: Send;

    #[doc(hidden)]
    fn base_len(&self) -> usize;
    #[doc(hidden)]
    fn pull(&self, ctx: Ctx, i: usize, sink: &mut dyn FnMut(Self::Item));

    fn map<F, R>(self, f: F) -> Map<Self, F>
    where
        F: Fn(Self::Item) -> R + Sync + Send,
        R: Send,
    {
        Map { base: self, f }
    }
    fn map_with<T, F, R>(self, init: T, f: F) -> MapWith<Self, T, F>
    where
        T: Send + Sync + Clone,
        F: Fn(&mut T, Self::Item) -> R + Sync + Send,
        R: Send,
    {
        MapWith {
            base: self,
            init,
            f,
            jobs: JobSlots::new(),
        }
    }
    fn map_init<INIT, T, F, R>(self, init: INIT, f: F) -> MapInit<Self, INIT, F, T>
    where
        INIT: Fn() -> T + Sync + Send,
        F: Fn(&mut T, Self::Item) -> R + Sync + Send,
        R: Send,
        T: Send,
    {
        MapInit {
            base: self,
            init,
            f,
            jobs: JobSlots::new(),
        }
    }
    fn filter<F>(self, f: F) -> Filter<Self, F>
    where
        F: Fn(&Self::Item) -> bool + Sync + Send,
    {
        Filter { base: self, f }
    }
    fn filter_map<F, R>(self, f: F) -> FilterMap<Self, F>
    where
        F: Fn(Self::Item) -> Option<R> + Sync + Send,
        R: Send,
    {
        FilterMap { base: self, f }
    }
    fn flat_map_iter<F, U>(self, f: F) -> FlatMapIter<Self, F>
    where
        F: Fn(Self::Item) -> U + Sync + Send,
        U: IntoIterator,
        U::Item: Send,
    {
        FlatMapIter { base: self, f }
    }
    fn flat_map<F, PI>(self, f: F) -> FlatMap<Self, F>
    where
        F: Fn(Self::Item) -> PI + Sync + Send,
        PI: IntoParallelIterator,
    {
        FlatMap { base: self, f }
    }
    fn inspect<F>(self, f: F) -> Inspect<Self, F>
    where
        F: Fn(&Self::Item) + Sync + Send,
    {
        Inspect { base: self, f }
    }
    fn cloned<'a, T>(self) -> Cloned<Self>
    where
        T: 'a + Clone + Send + Sync,
        Self: ParallelIterator<Item = &'a T>,
    {
        Cloned { base: self }
    }
    fn copied<'a, T>(self) -> Copied<Self>
    where
        T: 'a + Copy + Send + Sync,
        Self: ParallelIterator<Item = &'a T>,
    {
        Copied { base: self }
    }
    fn chain<C>(self, other: C) -> Chain<Self, C::Iter>
    where
        C: IntoParallelIterator<Item = Self::Item>,
    {
        Chain {
            a: self,
            b: other.into_par_iter(),
        }
    }

    // ---- terminal operations -------------------------------------------------

    fn for_each<F>(self, f: F)
    where
        F: Fn(Self::Item) + Sync + Send,
    {
        let m = Map { base: self, f };
        let _ = execute(&m, None);
    }
    fn for_each_with<T, F>(self, init: T, f: F)
    where
        T: Send + Sync + Clone,
        F: Fn(&mut T, Self::Item) + Sync + Send,
    {
        let m = MapWith {
            base: self,
            init,
            f,
            jobs: JobSlots::new(),
        };
        let _ = execute(&m, None);
    }
    fn try_for_each<F, E>(self, f: F) -> Result<(), E>
    where
        F: Fn(Self::Item) -> Result<(), E> + Sync + Send,
        E: Send,
    {
        self.map(f).collect::<Result<(), E>>()
    }
    fn count(self) -> usize {
        execute(&self, None).into_ordered().count()
    }
    fn collect<C>(self) -> C
    where
        C: FromParallelIterator<Self::Item>,
    {
        C::from_par_iter(self)
    }
    fn collect_vec_list(self) -> std::collections::LinkedList<Vec<Self::Item>> {
        let mut l = std::collections::LinkedList::new();
        l.push_back(execute(&self, None).into_ordered().collect());
        l
    }
    fn unzip<A, B, FromA, FromB>(self) -> (FromA, FromB)
    where
        Self: ParallelIterator<Item = (A, B)>,
        FromA: Default + Send + Extend<A>,
        FromB: Default + Send + Extend<B>,
        A: Send,
        B: Send,
    {
        let mut a = FromA::default();
        let mut b = FromB::default();
        for (x, y) in execute(&self, None).into_ordered() {
            a.extend(std::iter::once(x));
            b.extend(std::iter::once(y));
        }
        (a, b)
    }
    fn partition<A, B, P>(self, predicate: P) -> (A, B)
    where
        A: Default + Send + Extend<Self::Item>,
        B: Default + Send + Extend<Self::Item>,
        P: Fn(&Self::Item) -> bool + Sync + Send,
    {
        // the predicate runs inside the tasks, like the rest of the pipeline
        let tagged = Map {
            base: self,
            f: move |x| {
                let t = predicate(&x);
                (t, x)
            },
        };
        let mut a = A::default();
        let mut b = B::default();
        for (t, x) in execute(&tagged, None).into_ordered() {
            if t {
                a.extend(std::iter::once(x));
            } else {
                b.extend(std::iter::once(x));
            }
        }
        (a, b)
    }
    fn partition_map<A, B, P, L, R>(self, predicate: P) -> (A, B)
    where
        A: Default + Send + Extend<L>,
        B: Default + Send + Extend<R>,
        P: Fn(Self::Item) -> crate::Either<L, R> + Sync + Send,
        L: Send,
        R: Send,
    {
        let m = Map {
            base: self,
            f: predicate,
        };
        let mut a = A::default();
        let mut b = B::default();
        for e in execute(&m, None).into_ordered() {
            match e {
                crate::Either::Left(l) => a.extend(std::iter::once(l)),
                crate::Either::Right(r) => b.extend(std::iter::once(r)),
            }
        }
        (a, b)
    }
    fn reduce<OP, ID>(self, identity: ID, op: OP) -> Self::Item
    where
        OP: Fn(Self::Item, Self::Item) -> Self::Item + Sync + Send,
        ID: Fn() -> Self::Item + Sync + Send,
    {
        let items: Vec<Self::Item> = execute(&self, None).into_ordered().collect();
        tree_reduce(items, &op, &identity)
    }
    fn reduce_with<OP>(self, op: OP) -> Option<Self::Item>
    where
        OP: Fn(Self::Item, Self::Item) -> Self::Item + Sync + Send,
    {
        let items: Vec<Option<Self::Item>> = execute(&self, None).into_ordered().map(Some).collect();
        if items.is_empty() {
            return None;
        }
        tree_reduce(
            items,
            &|a, b| match (a, b) {
                (Some(a), Some(b)) => Some(op(a, b)),
                (Some(v), None) | (None, Some(v)) => Some(v),
                (None, None) => None,
            },
            &|| None,
        )
    }
    /// One accumulator per group of adjacent items; how many groups there are follows the
    /// schedule (rayon: "the number of groups is not fixed").
    fn fold<T, ID, F>(self, identity: ID, fold_op: F) -> VecIter<T>
    where
        F: Fn(T, Self::Item) -> T + Sync + Send,
        ID: Fn() -> T + Sync + Send,
        T: Send,
    {
        let items: Vec<Self::Item> = execute(&self, None).into_ordered().collect();
        let ends = random_group_bounds(items.len());
        let mut out = Vec::new();
        let mut it = items.into_iter();
        let mut start = 0;
        for e in ends {
            let mut acc = identity();
            for _ in start..e {
                acc = fold_op(acc, it.next().expect("item"));
            }
            start = e;
            out.push(acc);
        }
        if out.is_empty() {
            out.push(identity());
        }
        vec_iter(out)
    }
    fn fold_with<T, F>(self, init: T, fold_op: F) -> VecIter<T>
    where
        F: Fn(T, Self::Item) -> T + Sync + Send,
        T: Send + Sync + Clone,
    {
        self.fold(move || init.clone(), fold_op)
    }
    /// Like `fold`, but a group stops at its first failure (the group then yields that failure).
    fn try_fold<T, R, ID, F>(self, identity: ID, fold_op: F) -> VecIter<R>
    where
        F: Fn(T, Self::Item) -> R + Sync + Send,
        ID: Fn() -> T + Sync + Send,
        R: TryLike<Output = T> + Send,
    {
        let items: Vec<Self::Item> = execute(&self, None).into_ordered().collect();
        let ends = random_group_bounds(items.len());
        let mut out = Vec::new();
        let mut it = items.into_iter();
        let mut start = 0;
        for e in ends {
            let mut acc: Result<T, R> = Ok(identity());
            for _ in start..e {
                let x = it.next().expect("item");
                acc = match acc {
                    Ok(a) => fold_op(a, x).branch(),
                    Err(r) => Err(r),
                };
            }
            start = e;
            out.push(match acc {
                Ok(a) => R::from_output(a),
                Err(r) => r,
            });
        }
        if out.is_empty() {
            out.push(R::from_output(identity()));
        }
        vec_iter(out)
    }
    fn try_fold_with<T, R, F>(self, init: T, fold_op: F) -> VecIter<R>
    where
        F: Fn(T, Self::Item) -> R + Sync + Send,
        R: TryLike<Output = T> + Send,
        T: Clone + Send + Sync,
    {
        self.try_fold(move || init.clone(), fold_op)
    }
    /// Reduce fallible items; with several failures the one that *arrived* first is returned.
    fn try_reduce<T, OP, ID>(self, identity: ID, op: OP) -> Self::Item
    where
        OP: Fn(T, T) -> Self::Item + Sync + Send,
        ID: Fn() -> T + Sync + Send,
        Self::Item: TryLike<Output = T>,
    {
        let out = execute(&self, None);
        let mut slots = out.slots;
        // the failure that arrived first wins
        let mut first_fail: Option<(u64, Self::Item)> = None;
        let mut oks: Vec<T> = Vec::new();
        slots.sort_by_key(|(i, _, _)| *i);
        for (_, arrival, items) in slots {
            for x in items {
                match x.branch() {
                    Ok(t) => oks.push(t),
                    Err(r) => match &first_fail {
                        Some((a, _)) if *a <= arrival => {}
                        _ => first_fail = Some((arrival, r)),
                    },
                }
            }
        }
        if let Some((_, r)) = first_fail {
            return r;
        }
        // combine in a random tree; the first failing combination is the result
        let failed: Mutex<Option<Self::Item>> = Mutex::new(None);
        let combined = tree_reduce(
            oks.into_iter().map(Some).collect(),
            &|a: Option<T>, b: Option<T>| match (a, b) {
                (Some(a), Some(b)) => match op(a, b).branch() {
                    Ok(t) => Some(t),
                    Err(r) => {
                        let mut f = failed.lock().unwrap();
                        if f.is_none() {
                            *f = Some(r);
                        }
                        None
                    }
                },
                _ => None,
            },
            &|| Some(identity()),
        );
        if let Some(r) = failed.into_inner().unwrap() {
            return r;
        }
        match combined {
            Some(t) => <Self::Item as TryLike>::from_output(t),
            None => <Self::Item as TryLike>::from_output(identity()),
        }
    }
    fn try_for_each_with<T, F, E>(self, init: T, f: F) -> Result<(), E>
    where
        T: Send + Sync + Clone,
        F: Fn(&mut T, Self::Item) -> Result<(), E> + Sync + Send,
        E: Send,
    {
        self.map_with(init, f).collect::<Result<(), E>>()
    }
    fn for_each_init<INIT, T, F>(self, init: INIT, f: F)
    where
        INIT: Fn() -> T + Sync + Send,
        F: Fn(&mut T, Self::Item) + Sync + Send,
        T: Send,
    {
        let m = self.map_init(init, f);
        let _ = execute(&m, None);
    }
    fn try_for_each_init<INIT, T, F, E>(self, init: INIT, f: F) -> Result<(), E>
    where
        INIT: Fn() -> T + Sync + Send,
        F: Fn(&mut T, Self::Item) -> Result<(), E> + Sync + Send,
        T: Send,
        E: Send,
    {
        self.map_init(init, f).collect::<Result<(), E>>()
    }
    fn update<F>(self, f: F) -> Update<Self, F>
    where
        F: Fn(&mut Self::Item) + Sync + Send,
    {
        Update { base: self, f }
    }
    fn flatten_iter(self) -> FlatMapIter<Self, fn(Self::Item) -> Self::Item>
    where
        Self::Item: IntoIterator,
        <Self::Item as IntoIterator>::Item: Send,
    {
        fn id<T>(x: T) -> T {
            x
        }
        self.flat_map_iter(id::<Self::Item> as fn(Self::Item) -> Self::Item)
    }
    fn flatten(self) -> FlatMap<Self, fn(Self::Item) -> Self::Item>
    where
        Self::Item: IntoParallelIterator,
    {
        fn id<T>(x: T) -> T {
            x
        }
        self.flat_map(id::<Self::Item> as fn(Self::Item) -> Self::Item)
    }
    fn panic_fuse(self) -> Self {
        self
    }
    fn min_by<F>(self, f: F) -> Option<Self::Item>
    where
        F: Sync + Send + Fn(&Self::Item, &Self::Item) -> std::cmp::Ordering,
    {
        execute(&self, None).into_ordered().min_by(|a, b| f(a, b))
    }
    fn max_by<F>(self, f: F) -> Option<Self::Item>
    where
        F: Sync + Send + Fn(&Self::Item, &Self::Item) -> std::cmp::Ordering,
    {
        execute(&self, None).into_ordered().max_by(|a, b| f(a, b))
    }
    fn sum<S>(self) -> S
    where
        S: Send + std::iter::Sum<Self::Item> + std::iter::Sum<S>,
    {
        execute(&self, None).into_ordered().sum()
    }
    fn product<P>(self) -> P
    where
        P: Send + std::iter::Product<Self::Item> + std::iter::Product<P>,
    {
        execute(&self, None).into_ordered().product()
    }
    fn min(self) -> Option<Self::Item>
    where
        Self::Item: Ord,
    {
        execute(&self, None).into_ordered().min()
    }
    fn max(self) -> Option<Self::Item>
    where
        Self::Item: Ord,
    {
        execute(&self, None).into_ordered().max()
    }
    fn min_by_key<K: Ord + Send, F>(self, f: F) -> Option<Self::Item>
    where
        F: Sync + Send + Fn(&Self::Item) -> K,
    {
        execute(&self, None).into_ordered().min_by_key(|x| f(x))
    }
    fn max_by_key<K: Ord + Send, F>(self, f: F) -> Option<Self::Item>
    where
        F: Sync + Send + Fn(&Self::Item) -> K,
    {
        execute(&self, None).into_ordered().max_by_key(|x| f(x))
    }
    fn any<P>(self, predicate: P) -> bool
    where
        P: Fn(Self::Item) -> bool + Sync + Send,
    {
        let m = Map {
            base: self,
            f: predicate,
        };
        execute(&m, Some(&|b: &bool| *b))
            .into_ordered()
            .any(|b| b)
    }
    fn all<P>(self, predicate: P) -> bool
    where
        P: Fn(Self::Item) -> bool + Sync + Send,
    {
        let m = Map {
            base: self,
            f: predicate,
        };
        execute(&m, Some(&|b: &bool| !*b))
            .into_ordered()
            .all(|b| b)
    }
    /// Any matching item: the first one to *arrive*.
    fn find_any<P>(self, predicate: P) -> Option<Self::Item>
    where
        P: Fn(&Self::Item) -> bool + Sync + Send,
    {
        let f = Filter {
            base: self,
            f: predicate,
        };
        execute(&f, Some(&|_: &Self::Item| true))
            .into_arrival_order()
            .next()
    }
    fn find_first<P>(self, predicate: P) -> Option<Self::Item>
    where
        P: Fn(&Self::Item) -> bool + Sync + Send,
    {
        let f = Filter {
            base: self,
            f: predicate,
        };
        execute(&f, None).into_ordered().next()
    }
    fn find_map_any<P, R>(self, predicate: P) -> Option<R>
    where
        P: Fn(Self::Item) -> Option<R> + Sync + Send,
        R: Send,
    {
        let f = FilterMap {
            base: self,
            f: predicate,
        };
        execute(&f, Some(&|_: &R| true)).into_arrival_order().next()
    }
    fn find_map_first<P, R>(self, predicate: P) -> Option<R>
    where
        P: Fn(Self::Item) -> Option<R> + Sync + Send,
        R: Send,
    {
        let f = FilterMap {
            base: self,
            f: predicate,
        };
        execute(&f, None).into_ordered().next()
    }
    /// Stops handing out items once one maps to `None`; which later items still run follows the schedule.
    fn while_some<T>(self) -> WhileSome<Self>
    where
        Self: ParallelIterator<Item = Option<T>>,
        T: Send,
    {
        WhileSome { base: self }
    }
    fn opt_len(&self) -> Option<usize> {
        None
    }
}

/// The stand-in for `rayon::iter::IndexedParallelIterator` (exactly one item per base index).
pub trait IndexedParallelIterator: ParallelIterator {
    fn len(&self) -> usize {
        self.base_len()
    }
    fn zip<Z>(self, other: Z) -> Zip<Self, Z::Iter>
    where
        Z: IntoParallelIterator,
        Z::Iter: IndexedParallelIterator,
    {
        Zip {
            a: self,
            b: other.into_par_iter(),
        }
    }
    fn zip_eq<Z>(self, other: Z) -> Zip<Self, Z::Iter>
    where
        Z: IntoParallelIterator,
        Z::Iter: IndexedParallelIterator,
    {
        let b = other.into_par_iter();
        assert_eq!(self.base_len(), b.base_len(), "iterators must have the same length");
        Zip { a: self, b }
    }
    fn enumerate(self) -> Enumerate<Self> {
        Enumerate { base: self }
    }
    fn rev(self) -> Rev<Self> {
        Rev { base: self }
    }
    fn skip(self, n: usize) -> Skip<Self> {
        Skip { base: self, n }
    }
    fn take(self, n: usize) -> Take<Self> {
        Take { base: self, n }
    }
    fn step_by(self, step: usize) -> StepBy<Self> {
        assert!(step != 0, "step must not be zero");
        StepBy { base: self, step }
    }
    /// Groups of `size` adjacent items, each group produced by one unit of work.
    fn chunks(self, size: usize) -> ChunksOf<Self> {
        assert!(size != 0, "chunk size must not be zero");
        ChunksOf { base: self, size }
    }
    fn with_min_len(self, _min: usize) -> Self {
        self
    }
    fn with_max_len(self, _max: usize) -> Self {
        self
    }
    fn collect_into_vec(self, target: &mut Vec<Self::Item>) {
        target.clear();
        target.reserve(self.base_len());
        target.extend(execute(&self, None).into_ordered());
    }
    fn unzip_into_vecs<A, B>(self, left: &mut Vec<A>, right: &mut Vec<B>)
    where
        Self: IndexedParallelIterator<Item = (A, B)>,
        A: Send,
        B: Send,
    {
        left.clear();
        right.clear();
        for (a, b) in execute(&self, None).into_ordered() {
            left.push(a);
            right.push(b);
        }
    }
    fn position_any<P>(self, predicate: P) -> Option<usize>
    where
        P: Fn(Self::Item) -> bool + Sync + Send,
    {
        let m = Map {
            base: Enumerate { base: self },
            f: move |(i, x)| (i, predicate(x)),
        };
        execute(&m, Some(&|t: &(usize, bool)| t.1))
            .into_arrival_order()
            .find(|t| t.1)
            .map(|t| t.0)
    }
    fn position_first<P>(self, predicate: P) -> Option<usize>
    where
        P: Fn(Self::Item) -> bool + Sync + Send,
    {
        let m = Map {
            base: self,
            f: predicate,
        };
        execute(&m, None).into_ordered().position(|b| b)
    }
}

pub trait IntoParallelIterator {
    type Iter: ParallelIterator<Item = Self::Item>;
    type Item: Send;
    fn into_par_iter(self) -> Self::Iter;
}

impl<T: ParallelIterator> IntoParallelIterator for T {
    type Iter = T;
    type Item = T::Item;
    fn into_par_iter(self) -> T {
        self
    }
}

pub trait IntoParallelRefIterator<'data> {
    type Iter: ParallelIterator<Item = Self::Item>;
    type Item: Send + 'data;
    fn par_iter(&'data self) -> Self::Iter;
}

impl<'data, I: 'data + ?Sized> IntoParallelRefIterator<'data> for I
where
    &'data I: IntoParallelIterator,
{
    type Iter = <&'data I as IntoParallelIterator>::Iter;
    type Item = <&'data I as IntoParallelIterator>::Item;
    fn par_iter(&'data self) -> Self::Iter {
        self.into_par_iter()
    }
}

pub trait IntoParallelRefMutIterator<'data> {
    type Iter: ParallelIterator<Item = Self::Item>;
    type Item: Send + 'data;
    fn par_iter_mut(&'data mut self) -> Self::Iter;
}

impl<'data, I: 'data + ?Sized> IntoParallelRefMutIterator<'data> for I
where
    &'data mut I: IntoParallelIterator,
{
    type Iter = <&'data mut I as IntoParallelIterator>::Iter;
    type Item = <&'data mut I as IntoParallelIterator>::Item;
    fn par_iter_mut(&'data mut self) -> Self::Iter {
        self.into_par_iter()
    }
}

pub trait FromParallelIterator<T: Send> {
    fn from_par_iter<I>(par_iter: I) -> Self
    where
        I: IntoParallelIterator<Item = T>;
}

pub trait ParallelExtend<T: Send> {
    fn par_extend<I>(&mut self, par_iter: I)
    where
        I: IntoParallelIterator<Item = T>;
}

impl<T: Send, C: Extend<T>> ParallelExtend<T> for C {
    fn par_extend<I>(&mut self, par_iter: I)
    where
        I: IntoParallelIterator<Item = T>,
    {
        let it = par_iter.into_par_iter();
        self.extend(execute(&it, None).into_ordered());
    }
}

/// `iter.par_bridge()`: items of a sequential iterator handed to tasks; consumers see
/// them in whatever order the schedule produces.
pub trait ParallelBridge: Sized {
    fn par_bridge(self) -> IterBridge<Self>
    where
        Self: Iterator + Send,
        Self::Item: Send;
}

impl<T: Iterator + Send> ParallelBridge for T
where
    T::Item: Send,
{
    fn par_bridge(self) -> IterBridge<Self> {
        let items: Vec<Option<T::Item>> = self.map(Some).collect();
        IterBridge {
            items: Mutex::new(items),
            _p: std::marker::PhantomData,
        }
    }
}

// ---------------------------------------------------------------------------------
// sources

/// Owned vector source.
pub struct VecIter<T> {
    items: Mutex<Vec<Option<T>>>,
    len: usize,
}
impl<T: Send> ParallelIterator for VecIter<T> {
    type Item = T;
    fn base_len(&self) -> usize {
        self.len
    }
    fn pull(&self, ctx: Ctx, i: usize, sink: &mut dyn FnMut(T)) {
        let x = self.items.lock().unwrap()[i]
            .take()
            .expect("rayon-sim: base index pulled twice");
        sink(x)
    }
    fn opt_len(&self) -> Option<usize> {
        Some(self.len)
    }
}
impl<T: Send> IndexedParallelIterator for VecIter<T> {}

fn vec_iter<T: Send>(v: impl IntoIterator<Item = T>) -> VecIter<T> {
    let items: Vec<Option<T>> = v.into_iter().map(Some).collect();
    VecIter {
        len: items.len(),
        items: Mutex::new(items),
    }
}

impl<T: Send> IntoParallelIterator for Vec<T> {
    type Iter = VecIter<T>;
    type Item = T;
    fn into_par_iter(self) -> VecIter<T> {
        vec_iter(self)
    }
}
impl<T: Send, const N: usize> IntoParallelIterator for [T; N] {
    type Iter = VecIter<T>;
    type Item = T;
    fn into_par_iter(self) -> VecIter<T> {
        vec_iter(self)
    }
}
impl<T: Send> IntoParallelIterator for Option<T> {
    type Iter = VecIter<T>;
    type Item = T;
    fn into_par_iter(self) -> VecIter<T> {
        vec_iter(self)
    }
}
impl<T: Send> IntoParallelIterator for std::collections::VecDeque<T> {
    type Iter = VecIter<T>;
    type Item = T;
    fn into_par_iter(self) -> VecIter<T> {
        vec_iter(self)
    }
}
impl<K: Send, V: Send> IntoParallelIterator for BTreeMap<K, V> {
    type Iter = VecIter<(K, V)>;
    type Item = (K, V);
    fn into_par_iter(self) -> Self::Iter {
        vec_iter(self)
    }
}
impl<K: Send> IntoParallelIterator for BTreeSet<K> {
    type Iter = VecIter<K>;
    type Item = K;
    fn into_par_iter(self) -> Self::Iter {
        vec_iter(self)
    }
}
impl<K: Send, V: Send, S> IntoParallelIterator for HashMap<K, V, S> {
    type Iter = VecIter<(K, V)>;
    type Item = (K, V);
    fn into_par_iter(self) -> Self::Iter {
        vec_iter(self)
    }
}
impl<K: Send, S> IntoParallelIterator for HashSet<K, S> {
    type Iter = VecIter<K>;
    type Item = K;
    fn into_par_iter(self) -> Self::Iter {
        vec_iter(self)
    }
}
impl<'a, K: Sync + 'a, V: Sync + 'a> IntoParallelIterator for &'a BTreeMap<K, V> {
    type Iter = VecIter<(&'a K, &'a V)>;
    type Item = (&'a K, &'a V);
    fn into_par_iter(self) -> Self::Iter {
        vec_iter(self)
    }
}
impl<'a, K: Sync + 'a> IntoParallelIterator for &'a BTreeSet<K> {
    type Iter = VecIter<&'a K>;
    type Item = &'a K;
    fn into_par_iter(self) -> Self::Iter {
        vec_iter(self)
    }
}
impl<'a, K: Sync + 'a, V: Sync + 'a, S> IntoParallelIterator for &'a HashMap<K, V, S> {
    type Iter = VecIter<(&'a K, &'a V)>;
    type Item = (&'a K, &'a V);
    fn into_par_iter(self) -> Self::Iter {
        vec_iter(self)
    }
}
impl<'a, K: Sync + 'a, S> IntoParallelIterator for &'a HashSet<K, S> {
    type Iter = VecIter<&'a K>;
    type Item = &'a K;
    fn into_par_iter(self) -> Self::Iter {
        vec_iter(self)
    }
}
impl<'a, K: Sync + 'a, V: Send + 'a> IntoParallelIterator for &'a mut BTreeMap<K, V> {
    type Iter = VecIter<(&'a K, &'a mut V)>;
    type Item = (&'a K, &'a mut V);
    fn into_par_iter(self) -> Self::Iter {
        vec_iter(self)
    }
}
impl<'a, K: Sync + 'a, V: Send + 'a, S> IntoParallelIterator for &'a mut HashMap<K, V, S> {
    type Iter = VecIter<(&'a K, &'a mut V)>;
    type Item = (&'a K, &'a mut V);
    fn into_par_iter(self) -> Self::Iter {
        vec_iter(self)
    }
}

/// Borrowed slice source.
pub struct SliceIter<'a, T> {
    s: &'a [T],
}
impl<'a, T: Sync> ParallelIterator for SliceIter<'a, T> {
    type Item = &'a T;
    fn base_len(&self) -> usize {
        self.s.len()
    }
    fn pull(&self, ctx: Ctx, i: usize, sink: &mut dyn FnMut(&'a T)) {
        sink(&self.s[i])
    }
    fn opt_len(&self) -> Option<usize> {
        Some(self.s.len())
    }
}
impl<'a, T: Sync> IndexedParallelIterator for SliceIter<'a, T> {}
impl<'a, T: Sync> IntoParallelIterator for &'a [T] {
    type Iter = SliceIter<'a, T>;
    type Item = &'a T;
    fn into_par_iter(self) -> Self::Iter {
        SliceIter { s: self }
    }
}
impl<'a, T: Sync> IntoParallelIterator for &'a Vec<T> {
    type Iter = SliceIter<'a, T>;
    type Item = &'a T;
    fn into_par_iter(self) -> Self::Iter {
        SliceIter { s: self }
    }
}
impl<'a, T: Sync, const N: usize> IntoParallelIterator for &'a [T; N] {
    type Iter = SliceIter<'a, T>;
    type Item = &'a T;
    fn into_par_iter(self) -> Self::Iter {
        SliceIter { s: self }
    }
}
impl<'a, T: Send> IntoParallelIterator for &'a mut [T] {
    type Iter = VecIter<&'a mut T>;
    type Item = &'a mut T;
    fn into_par_iter(self) -> Self::Iter {
        vec_iter(self.iter_mut())
    }
}
impl<'a, T: Send> IntoParallelIterator for &'a mut Vec<T> {
    type Iter = VecIter<&'a mut T>;
    type Item = &'a mut T;
    fn into_par_iter(self) -> Self::Iter {
        vec_iter(self.iter_mut())
    }
}

/// Chunked slice source (`par_chunks`).
pub struct Chunks<'a, T> {
    s: &'a [T],
    size: usize,
}
impl<'a, T: Sync> ParallelIterator for Chunks<'a, T> {
    type Item = &'a [T];
    fn base_len(&self) -> usize {
        self.s.len().div_ceil(self.size)
    }
    fn opt_len(&self) -> Option<usize> {
        Some(self.base_len())
    }
    fn pull(&self, ctx: Ctx, i: usize, sink: &mut dyn FnMut(&'a [T])) {
        let a = i * self.size;
        let b = (a + self.size).min(self.s.len());
        sink(&self.s[a..b])
    }
}
impl<'a, T: Sync> IndexedParallelIterator for Chunks<'a, T> {}

/// Slice extension methods.
pub trait ParallelSlice<T: Sync> {
    fn as_parallel_slice(&self) -> &[T];
    fn par_chunks(&self, chunk_size: usize) -> Chunks<'_, T> {
        assert!(chunk_size != 0);
        Chunks {
            s: self.as_parallel_slice(),
            size: chunk_size,
        }
    }
}
impl<T: Sync> ParallelSlice<T> for [T] {
    fn as_parallel_slice(&self) -> &[T] {
        self
    }
}

/// Mutable slice extension methods (sorts are plain sequential sorts: rayon's are deterministic too).
pub trait ParallelSliceMut<T: Send> {
    fn as_parallel_slice_mut(&mut self) -> &mut [T];
    fn par_sort(&mut self)
    where
        T: Ord,
    {
        self.as_parallel_slice_mut().sort()
    }
    fn par_sort_unstable(&mut self)
    where
        T: Ord,
    {
        self.as_parallel_slice_mut().sort_unstable()
    }
    fn par_sort_by<F: Fn(&T, &T) -> std::cmp::Ordering + Sync>(&mut self, f: F) {
        self.as_parallel_slice_mut().sort_by(f)
    }
    fn par_sort_by_key<K: Ord, F: Fn(&T) -> K + Sync>(&mut self, f: F) {
        self.as_parallel_slice_mut().sort_by_key(f)
    }
    fn par_sort_unstable_by_key<K: Ord, F: Fn(&T) -> K + Sync>(&mut self, f: F) {
        self.as_parallel_slice_mut().sort_unstable_by_key(f)
    }
    fn par_chunks_mut(&mut self, chunk_size: usize) -> VecIter<&mut [T]> {
        assert!(chunk_size != 0);
        vec_iter(self.as_parallel_slice_mut().chunks_mut(chunk_size))
    }
}
impl<T: Send> ParallelSliceMut<T> for [T] {
    fn as_parallel_slice_mut(&mut self) -> &mut [T] {
        self
    }
}

/// Integer range source; never materialised.
pub struct RangeIter<T> {
    start: T,
    len: usize,
}
macro_rules! range_impl {
    ($($t:ty),*) => {$(
        impl ParallelIterator for RangeIter<$t> {
            type Item = $t;
            fn base_len(&self) -> usize { self.len }
            fn pull(&self, ctx: Ctx, i: usize, sink: &mut dyn FnMut($t)) {
                sink((self.start as i128 + i as i128) as $t)
            }
            fn opt_len(&self) -> Option<usize> { Some(self.len) }
        }
        impl IndexedParallelIterator for RangeIter<$t> {}
        impl IntoParallelIterator for std::ops::Range<$t> {
            type Iter = RangeIter<$t>;
            type Item = $t;
            fn into_par_iter(self) -> RangeIter<$t> {
                let len = if self.end > self.start {
                    let d = self.end as i128 - self.start as i128;
                    usize::try_from(d).unwrap_or(usize::MAX)
                } else { 0 };
                RangeIter { start: self.start, len }
            }
        }
        impl IntoParallelIterator for std::ops::RangeInclusive<$t> {
            type Iter = RangeIter<$t>;
            type Item = $t;
            fn into_par_iter(self) -> RangeIter<$t> {
                let (s, e) = (*self.start(), *self.end());
                let len = if e >= s {
                    let d = e as i128 - s as i128 + 1;
                    usize::try_from(d).unwrap_or(usize::MAX)
                } else { 0 };
                RangeIter { start: s, len }
            }
        }
    )*};
}
range_impl!(u8, u16, u32, u64, usize, i8, i16, i32, i64, isize);

/// `par_bridge` source.
pub struct IterBridge<I: Iterator> {
    items: Mutex<Vec<Option<I::Item>>>,
    _p: std::marker::PhantomData<fn() -> I>,
}
impl<I: Iterator + Send> ParallelIterator for IterBridge<I>
where
    I::Item: Send,
{
    type Item = I::Item;
    fn base_len(&self) -> usize {
        self.items.lock().unwrap().len()
    }
    fn pull(&self, ctx: Ctx, i: usize, sink: &mut dyn FnMut(I::Item)) {
        let x = self.items.lock().unwrap()[i].take().expect("pulled twice");
        sink(x)
    }
}

/// One-item iterator returned by `fold`.
pub struct OnceIter<T> {
    v: Mutex<Option<T>>,
}
impl<T: Send> ParallelIterator for OnceIter<T> {
    type Item = T;
    fn base_len(&self) -> usize {
        1
    }
    fn pull(&self, ctx: Ctx, _i: usize, sink: &mut dyn FnMut(T)) {
        sink(self.v.lock().unwrap().take().expect("pulled twice"))
    }
}

/// `rayon::iter::empty`
pub fn empty<T: Send>() -> VecIter<T> {
    vec_iter(Vec::new())
}
/// `rayon::iter::once`
pub fn once<T: Send>(x: T) -> VecIter<T> {
    vec_iter(vec![x])
}
/// `rayon::iter::repeatn`
pub fn repeatn<T: Clone + Send>(x: T, n: usize) -> VecIter<T> {
    vec_iter(std::iter::repeat(x).take(n))
}

// ---------------------------------------------------------------------------------
// adaptors

pub struct Map<I, F> {
    base: I,
    f: F,
}
impl<I, F, R> ParallelIterator for Map<I, F>
where
    I: ParallelIterator,
    F: Fn(I::Item) -> R + Sync + Send,
    R: Send,
{
    type Item = R;
    fn base_len(&self) -> usize {
        self.base.base_len()
    }
    fn opt_len(&self) -> Option<usize> {
        self.base.opt_len()
    }
    fn pull(&self, ctx: Ctx, i: usize, sink: &mut dyn FnMut(R)) {
        self.base.pull(ctx, i, &mut |x| sink((self.f)(x)))
    }
}
impl<I, F, R> IndexedParallelIterator for Map<I, F>
where
    I: IndexedParallelIterator,
    F: Fn(I::Item) -> R + Sync + Send,
    R: Send,
{
}

pub struct MapWith<I, T, F> {
    base: I,
    init: T,
    f: F,
    jobs: JobSlots<T>,
}
impl<I, T, F, R> ParallelIterator for MapWith<I, T, F>
where
    I: ParallelIterator,
    T: Send + Sync + Clone,
    F: Fn(&mut T, I::Item) -> R + Sync + Send,
    R: Send,
{
    type Item = R;
    fn base_len(&self) -> usize {
        self.base.base_len()
    }
    fn opt_len(&self) -> Option<usize> {
        self.base.opt_len()
    }
    fn pull(&self, ctx: Ctx, i: usize, sink: &mut dyn FnMut(R)) {
        // one clone of `init` per job, reused for every item the job processes
        let mut t = self.jobs.take(ctx).unwrap_or_else(|| self.init.clone());
        self.base.pull(ctx, i, &mut |x| sink((self.f)(&mut t, x)));
        self.jobs.put(ctx, t);
    }
}
impl<I, T, F, R> IndexedParallelIterator for MapWith<I, T, F>
where
    I: IndexedParallelIterator,
    T: Send + Sync + Clone,
    F: Fn(&mut T, I::Item) -> R + Sync + Send,
    R: Send,
{
}

/// Per-job storage for `map_with` / `map_init` state.
pub struct JobSlots<T>(Mutex<HashMap<u64, T>>);
impl<T> JobSlots<T> {
    fn new() -> Self {
        JobSlots(Mutex::new(HashMap::new()))
    }
    fn take(&self, ctx: Ctx) -> Option<T> {
        self.0.lock().unwrap().remove(&ctx.0)
    }
    fn put(&self, ctx: Ctx, t: T) {
        self.0.lock().unwrap().insert(ctx.0, t);
    }
}

pub struct MapInit<I, INIT, F, T> {
    base: I,
    init: INIT,
    f: F,
    jobs: JobSlots<T>,
}
impl<I, INIT, T, F, R> ParallelIterator for MapInit<I, INIT, F, T>
where
    I: ParallelIterator,
    INIT: Fn() -> T + Sync + Send,
    F: Fn(&mut T, I::Item) -> R + Sync + Send,
    R: Send,
    T: Send,
{
    type Item = R;
    fn base_len(&self) -> usize {
        self.base.base_len()
    }
    fn opt_len(&self) -> Option<usize> {
        self.base.opt_len()
    }
    fn pull(&self, ctx: Ctx, i: usize, sink: &mut dyn FnMut(R)) {
        let mut t = self.jobs.take(ctx).unwrap_or_else(|| (self.init)());
        self.base.pull(ctx, i, &mut |x| sink((self.f)(&mut t, x)));
        self.jobs.put(ctx, t);
    }
}
impl<I, INIT, T, F, R> IndexedParallelIterator for MapInit<I, INIT, F, T>
where
    I: IndexedParallelIterator,
    INIT: Fn() -> T + Sync + Send,
    F: Fn(&mut T, I::Item) -> R + Sync + Send,
    R: Send,
    T: Send,
{
}

pub struct Inspect<I, F> {
    base: I,
    f: F,
}
impl<I, F> ParallelIterator for Inspect<I, F>
where
    I: ParallelIterator,
    F: Fn(&I::Item) + Sync + Send,
{
    type Item = I::Item;
    fn base_len(&self) -> usize {
        self.base.base_len()
    }
    fn opt_len(&self) -> Option<usize> {
        self.base.opt_len()
    }
    fn pull(&self, ctx: Ctx, i: usize, sink: &mut dyn FnMut(I::Item)) {
        self.base.pull(ctx, i, &mut |x| {
            (self.f)(&x);
            sink(x)
        })
    }
}
impl<I: IndexedParallelIterator, F: Fn(&I::Item) + Sync + Send> IndexedParallelIterator
    for Inspect<I, F>
{
}

pub struct Filter<I, F> {
    base: I,
    f: F,
}
impl<I, F> ParallelIterator for Filter<I, F>
where
    I: ParallelIterator,
    F: Fn(&I::Item) -> bool + Sync + Send,
{
    type Item = I::Item;
    fn base_len(&self) -> usize {
        self.base.base_len()
    }
    fn pull(&self, ctx: Ctx, i: usize, sink: &mut dyn FnMut(I::Item)) {
        self.base.pull(ctx, i, &mut |x| {
            if (self.f)(&x) {
                sink(x)
            }
        })
    }
}

pub struct FilterMap<I, F> {
    base: I,
    f: F,
}
impl<I, F, R> ParallelIterator for FilterMap<I, F>
where
    I: ParallelIterator,
    F: Fn(I::Item) -> Option<R> + Sync + Send,
    R: Send,
{
    type Item = R;
    fn base_len(&self) -> usize {
        self.base.base_len()
    }
    fn pull(&self, ctx: Ctx, i: usize, sink: &mut dyn FnMut(R)) {
        self.base.pull(ctx, i, &mut |x| {
            if let Some(y) = (self.f)(x) {
                sink(y)
            }
        })
    }
}

pub struct FlatMapIter<I, F> {
    base: I,
    f: F,
}
impl<I, F, U> ParallelIterator for FlatMapIter<I, F>
where
    I: ParallelIterator,
    F: Fn(I::Item) -> U + Sync + Send,
    U: IntoIterator,
    U::Item: Send,
{
    type Item = U::Item;
    fn base_len(&self) -> usize {
        self.base.base_len()
    }
    fn pull(&self, ctx: Ctx, i: usize, sink: &mut dyn FnMut(U::Item)) {
        self.base.pull(ctx, i, &mut |x| {
            for y in (self.f)(x) {
                sink(y)
            }
        })
    }
}

pub struct FlatMap<I, F> {
    base: I,
    f: F,
}
impl<I, F, PI> ParallelIterator for FlatMap<I, F>
where
    I: ParallelIterator,
    F: Fn(I::Item) -> PI + Sync + Send,
    PI: IntoParallelIterator,
{
    type Item = PI::Item;
    fn base_len(&self) -> usize {
        self.base.base_len()
    }
    fn pull(&self, ctx: Ctx, i: usize, sink: &mut dyn FnMut(PI::Item)) {
        self.base.pull(ctx, i, &mut |x| {
            // the inner parallel iterator is a nested region
            let inner = (self.f)(x).into_par_iter();
            for y in execute(&inner, None).into_ordered() {
                sink(y)
            }
        })
    }
}

pub struct Cloned<I> {
    base: I,
}
impl<'a, T, I> ParallelIterator for Cloned<I>
where
    T: 'a + Clone + Send + Sync,
    I: ParallelIterator<Item = &'a T>,
{
    type Item = T;
    fn base_len(&self) -> usize {
        self.base.base_len()
    }
    fn opt_len(&self) -> Option<usize> {
        self.base.opt_len()
    }
    fn pull(&self, ctx: Ctx, i: usize, sink: &mut dyn FnMut(T)) {
        self.base.pull(ctx, i, &mut |x| sink(x.clone()))
    }
}
impl<'a, T, I> IndexedParallelIterator for Cloned<I>
where
    T: 'a + Clone + Send + Sync,
    I: IndexedParallelIterator<Item = &'a T>,
{
}

pub struct Copied<I> {
    base: I,
}
impl<'a, T, I> ParallelIterator for Copied<I>
where
    T: 'a + Copy + Send + Sync,
    I: ParallelIterator<Item = &'a T>,
{
    type Item = T;
    fn base_len(&self) -> usize {
        self.base.base_len()
    }
    fn opt_len(&self) -> Option<usize> {
        self.base.opt_len()
    }
    fn pull(&self, ctx: Ctx, i: usize, sink: &mut dyn FnMut(T)) {
        self.base.pull(ctx, i, &mut |x| sink(*x))
    }
}
impl<'a, T, I> IndexedParallelIterator for Copied<I>
where
    T: 'a + Copy + Send + Sync,
    I: IndexedParallelIterator<Item = &'a T>,
{
}

pub struct Chain<A, B> {
    a: A,
    b: B,
}
impl<A, B> ParallelIterator for Chain<A, B>
where
    A: ParallelIterator,
    B: ParallelIterator<Item = A::Item>,
{
    type Item = A::Item;
    fn base_len(&self) -> usize {
        self.a.base_len().saturating_add(self.b.base_len())
    }
    fn opt_len(&self) -> Option<usize> {
        match (self.a.opt_len(), self.b.opt_len()) {
            (Some(x), Some(y)) => x.checked_add(y),
            _ => None,
        }
    }
    fn pull(&self, ctx: Ctx, i: usize, sink: &mut dyn FnMut(A::Item)) {
        let n = self.a.base_len();
        if i < n {
            self.a.pull(ctx, i, sink)
        } else {
            self.b.pull(ctx, i - n, sink)
        }
    }
}
impl<A, B> IndexedParallelIterator for Chain<A, B>
where
    A: IndexedParallelIterator,
    B: IndexedParallelIterator<Item = A::Item>,
{
}

pub struct Zip<A, B> {
    a: A,
    b: B,
}
impl<A, B> ParallelIterator for Zip<A, B>
where
    A: IndexedParallelIterator,
    B: IndexedParallelIterator,
{
    type Item = (A::Item, B::Item);
    fn base_len(&self) -> usize {
        self.a.base_len().min(self.b.base_len())
    }
    fn opt_len(&self) -> Option<usize> {
        match (self.a.opt_len(), self.b.opt_len()) {
            (Some(_), Some(_)) => Some(self.base_len()),
            _ => None,
        }
    }
    fn pull(&self, ctx: Ctx, i: usize, sink: &mut dyn FnMut((A::Item, B::Item))) {
        let mut x = None;
        self.a.pull(ctx, i, &mut |v| x = Some(v));
        let mut y = None;
        self.b.pull(ctx, i, &mut |v| y = Some(v));
        sink((
            x.expect("indexed iterator yields one item"),
            y.expect("indexed iterator yields one item"),
        ))
    }
}
impl<A: IndexedParallelIterator, B: IndexedParallelIterator> IndexedParallelIterator for Zip<A, B> {}

pub struct Enumerate<I> {
    base: I,
}
impl<I: IndexedParallelIterator> ParallelIterator for Enumerate<I> {
    type Item = (usize, I::Item);
    fn base_len(&self) -> usize {
        self.base.base_len()
    }
    fn opt_len(&self) -> Option<usize> {
        self.base.opt_len()
    }
    fn pull(&self, ctx: Ctx, i: usize, sink: &mut dyn FnMut((usize, I::Item))) {
        self.base.pull(ctx, i, &mut |x| sink((i, x)))
    }
}
impl<I: IndexedParallelIterator> IndexedParallelIterator for Enumerate<I> {}

pub struct Rev<I> {
    base: I,
}
impl<I: IndexedParallelIterator> ParallelIterator for Rev<I> {
    type Item = I::Item;
    fn base_len(&self) -> usize {
        self.base.base_len()
    }
    fn opt_len(&self) -> Option<usize> {
        self.base.opt_len()
    }
    fn pull(&self, ctx: Ctx, i: usize, sink: &mut dyn FnMut(I::Item)) {
        self.base.pull(ctx, self.base.base_len() - 1 - i, sink)
    }
}
impl<I: IndexedParallelIterator> IndexedParallelIterator for Rev<I> {}

pub struct Skip<I> {
    base: I,
    n: usize,
}
impl<I: IndexedParallelIterator> ParallelIterator for Skip<I> {
    type Item = I::Item;
    fn base_len(&self) -> usize {
        self.base.base_len().saturating_sub(self.n)
    }
    fn opt_len(&self) -> Option<usize> {
        self.base.opt_len().map(|_| self.base_len())
    }
    fn pull(&self, ctx: Ctx, i: usize, sink: &mut dyn FnMut(I::Item)) {
        self.base.pull(ctx, i + self.n, sink)
    }
}
impl<I: IndexedParallelIterator> IndexedParallelIterator for Skip<I> {}

pub struct Take<I> {
    base: I,
    n: usize,
}
impl<I: IndexedParallelIterator> ParallelIterator for Take<I> {
    type Item = I::Item;
    fn base_len(&self) -> usize {
        self.base.base_len().min(self.n)
    }
    fn opt_len(&self) -> Option<usize> {
        self.base.opt_len().map(|_| self.base_len())
    }
    fn pull(&self, ctx: Ctx, i: usize, sink: &mut dyn FnMut(I::Item)) {
        self.base.pull(ctx, i, sink)
    }
}
impl<I: IndexedParallelIterator> IndexedParallelIterator for Take<I> {}

pub struct Update<I, F> {
    base: I,
    f: F,
}
impl<I, F> ParallelIterator for Update<I, F>
where
    I: ParallelIterator,
    F: Fn(&mut I::Item) + Sync + Send,
{
    type Item = I::Item;
    fn base_len(&self) -> usize {
        self.base.base_len()
    }
    fn pull(&self, ctx: Ctx, i: usize, sink: &mut dyn FnMut(I::Item)) {
        self.base.pull(ctx, i, &mut |mut x| {
            (self.f)(&mut x);
            sink(x)
        })
    }
    fn opt_len(&self) -> Option<usize> {
        self.base.opt_len()
    }
}
impl<I, F> IndexedParallelIterator for Update<I, F>
where
    I: IndexedParallelIterator,
    F: Fn(&mut I::Item) + Sync + Send,
{
}

pub struct StepBy<I> {
    base: I,
    step: usize,
}
impl<I: IndexedParallelIterator> ParallelIterator for StepBy<I> {
    type Item = I::Item;
    fn base_len(&self) -> usize {
        let n = self.base.base_len();
        if n == 0 {
            0
        } else {
            (n - 1) / self.step + 1
        }
    }
    fn pull(&self, ctx: Ctx, i: usize, sink: &mut dyn FnMut(I::Item)) {
        self.base.pull(ctx, i * self.step, sink)
    }
    fn opt_len(&self) -> Option<usize> {
        Some(self.base_len())
    }
}
impl<I: IndexedParallelIterator> IndexedParallelIterator for StepBy<I> {}

pub struct ChunksOf<I> {
    base: I,
    size: usize,
}
impl<I: IndexedParallelIterator> ParallelIterator for ChunksOf<I> {
    type Item = Vec<I::Item>;
    fn base_len(&self) -> usize {
        let n = self.base.base_len();
        (n + self.size - 1) / self.size
    }
    fn pull(&self, ctx: Ctx, i: usize, sink: &mut dyn FnMut(Vec<I::Item>)) {
        let n = self.base.base_len();
        let mut v = Vec::new();
        for j in i * self.size..((i + 1) * self.size).min(n) {
            self.base.pull(ctx, j, &mut |x| v.push(x));
        }
        sink(v)
    }
    fn opt_len(&self) -> Option<usize> {
        Some(self.base_len())
    }
}
impl<I: IndexedParallelIterator> IndexedParallelIterator for ChunksOf<I> {}

pub struct WhileSome<I> {
    base: I,
}
impl<I, T> ParallelIterator for WhileSome<I>
where
    I: ParallelIterator<Item = Option<T>>,
    T: Send,
{
    type Item = T;
    fn base_len(&self) -> usize {
        1
    }
    fn pull(&self, ctx: Ctx, _i: usize, sink: &mut dyn FnMut(T)) {
        // run the inner region with short-circuit on None; yield the Somes in index order
        let out = execute(&self.base, Some(&|x: &Option<T>| x.is_none()));
        for x in out.into_ordered().flatten() {
            sink(x)
        }
    }
}

// ---------------------------------------------------------------------------------
// collections

impl<T: Send> FromParallelIterator<T> for Vec<T> {
    fn from_par_iter<I: IntoParallelIterator<Item = T>>(par_iter: I) -> Self {
        let it = par_iter.into_par_iter();
        // rayon writes the items of an exact-length iterator straight into the target, which
        // it reserves up front (`special_extend`): a length taken from untrusted data is an
        // allocation of that size before any item has run
        let mut v = Vec::new();
        if let Some(n) = it.opt_len() {
            v.reserve(n);
        }
        v.extend(execute(&it, None).into_ordered());
        v
    }
}
impl<T: Send> FromParallelIterator<T> for std::collections::VecDeque<T> {
    fn from_par_iter<I: IntoParallelIterator<Item = T>>(par_iter: I) -> Self {
        let it = par_iter.into_par_iter();
        execute(&it, None).into_ordered().collect()
    }
}
impl<T: Send> FromParallelIterator<T> for std::collections::LinkedList<T> {
    fn from_par_iter<I: IntoParallelIterator<Item = T>>(par_iter: I) -> Self {
        let it = par_iter.into_par_iter();
        execute(&it, None).into_ordered().collect()
    }
}
impl<T: Send> FromParallelIterator<T> for Box<[T]> {
    fn from_par_iter<I: IntoParallelIterator<Item = T>>(par_iter: I) -> Self {
        Vec::from_par_iter(par_iter).into_boxed_slice()
    }
}
impl<K: Ord + Send, V: Send> FromParallelIterator<(K, V)> for BTreeMap<K, V> {
    fn from_par_iter<I: IntoParallelIterator<Item = (K, V)>>(par_iter: I) -> Self {
        let it = par_iter.into_par_iter();
        execute(&it, None).into_ordered().collect()
    }
}
impl<K: Ord + Send> FromParallelIterator<K> for BTreeSet<K> {
    fn from_par_iter<I: IntoParallelIterator<Item = K>>(par_iter: I) -> Self {
        let it = par_iter.into_par_iter();
        execute(&it, None).into_ordered().collect()
    }
}
impl<K: Eq + Hash + Send, V: Send, S: BuildHasher + Default + Send> FromParallelIterator<(K, V)>
    for HashMap<K, V, S>
{
    fn from_par_iter<I: IntoParallelIterator<Item = (K, V)>>(par_iter: I) -> Self {
        let it = par_iter.into_par_iter();
        execute(&it, None).into_ordered().collect()
    }
}
impl<K: Eq + Hash + Send, S: BuildHasher + Default + Send> FromParallelIterator<K>
    for HashSet<K, S>
{
    fn from_par_iter<I: IntoParallelIterator<Item = K>>(par_iter: I) -> Self {
        let it = par_iter.into_par_iter();
        execute(&it, None).into_ordered().collect()
    }
}
impl FromParallelIterator<char> for String {
    fn from_par_iter<I: IntoParallelIterator<Item = char>>(par_iter: I) -> Self {
        let it = par_iter.into_par_iter();
        execute(&it, None).into_ordered().collect()
    }
}
impl FromParallelIterator<String> for String {
    fn from_par_iter<I: IntoParallelIterator<Item = String>>(par_iter: I) -> Self {
        let it = par_iter.into_par_iter();
        execute(&it, None).into_ordered().collect()
    }
}
impl FromParallelIterator<()> for () {
    fn from_par_iter<I: IntoParallelIterator<Item = ()>>(par_iter: I) -> Self {
        let it = par_iter.into_par_iter();
        let _ = execute(&it, None);
    }
}

/// rayon: "if any item is `Err`, … which one is returned is not deterministic" — here:
/// the first error to *arrive*; items not yet started when it arrives may be skipped.
impl<C, T, E> FromParallelIterator<Result<T, E>> for Result<C, E>
where
    C: FromIterator<T>,
    T: Send,
    E: Send,
{
    fn from_par_iter<I: IntoParallelIterator<Item = Result<T, E>>>(par_iter: I) -> Self {
        let it = par_iter.into_par_iter();
        let out = execute(&it, Some(&|r: &Result<T, E>| r.is_err()));
        let mut first_err: Option<(u64, E)> = None;
        let mut oks = Vec::new();
        for (_, arrival, items) in out.slots {
            for r in items {
                match r {
                    Ok(v) => oks.push(v),
                    Err(e) => match &first_err {
                        Some((a, _)) if *a <= arrival => {}
                        _ => first_err = Some((arrival, e)),
                    },
                }
            }
        }
        match first_err {
            Some((_, e)) => Err(e),
            None => Ok(oks.into_iter().collect()),
        }
    }
}

impl<C, T> FromParallelIterator<Option<T>> for Option<C>
where
    C: FromIterator<T>,
    T: Send,
{
    fn from_par_iter<I: IntoParallelIterator<Item = Option<T>>>(par_iter: I) -> Self {
        let it = par_iter.into_par_iter();
        let out = execute(&it, Some(&|r: &Option<T>| r.is_none()));
        let mut oks = Vec::new();
        for x in out.into_ordered() {
            oks.push(x?);
        }
        Some(oks.into_iter().collect())
    }
}
