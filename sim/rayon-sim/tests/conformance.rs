//! Shim fidelity: for ordered consumers rayon-sim must give exactly what real rayon gives,
//! in sequential mode and under simulated schedules — on the three call shapes the tree
//! uses and on the adaptors a plausible edit would reach for.

use std::collections::BTreeMap;

macro_rules! shapes {
    ($r:ident) => {{
        use $r::prelude::*;

    let v: Vec<i64> = (0..37).collect();
    let caches: Vec<Vec<i64>> = (0..37).map(|i| vec![i; (i % 3) as usize]).collect();
    let mut out = Vec::new();
    // 1: slice.par_iter().zip(Vec).enumerate().map().partition(Result::is_ok)
    let (ok, bad): (Vec<Result<(usize, i64, usize), usize>>, Vec<_>) = v
        .par_iter()
        .zip(caches.clone())
        .enumerate()
        .map(|(i, (x, c))| if x % 5 == 0 { Err(i) } else { Ok((i, *x, c.len())) })
        .partition(Result::is_ok);
    out.push(format!("{ok:?}{bad:?}"));
    // 2: Vec<u16>.into_par_iter().map().collect::<BTreeMap>()
    let m: BTreeMap<u16, u32> = vec![9u16, 3, 7, 1].into_par_iter().map(|k| (k, k as u32 * 2)).collect();
    out.push(format!("{m:?}"));
    // 3: range.into_par_iter().map().collect::<Result<Vec,_>>() without errors
    let r: Result<Vec<i64>, String> = (0..20i64).into_par_iter().map(|i| Ok(i * i)).collect();
    out.push(format!("{r:?}"));
    // others
    let f: Vec<i64> = v.par_iter().filter(|x| *x % 3 == 1).map(|x| x + 1).collect();
    out.push(format!("{f:?}"));
    let fm: Vec<i64> = v.par_iter().flat_map_iter(|x| vec![*x; (*x % 3) as usize]).collect();
    out.push(format!("{fm:?}"));
    let s: i64 = v.par_iter().map(|x| x * 2).sum();
    out.push(format!("{s}"));
    let mx = v.par_iter().copied().max();
    out.push(format!("{mx:?}"));
    let ff = v.par_iter().find_first(|x| **x > 20).copied();
    out.push(format!("{ff:?}"));
    let (a, b): (Vec<i64>, Vec<i64>) = v.par_iter().map(|x| (*x, -*x)).unzip();
    out.push(format!("{a:?}{b:?}"));
    let red = v.par_iter().copied().reduce(|| 0, |a, b| a + b);
    out.push(format!("{red}"));
    let cnt = v.par_iter().filter(|x| **x % 2 == 0).count();
    out.push(format!("{cnt}"));
    let all = v.par_iter().all(|x| *x < 100);
    let any = v.par_iter().any(|x| *x == 36);
    out.push(format!("{all}{any}"));
    let ch: Vec<i64> = v.par_iter().copied().chain(vec![100, 101]).collect();
    out.push(format!("{ch:?}"));
    let rv: Vec<i64> = v.par_iter().copied().rev().skip(3).take(5).collect();
    out.push(format!("{rv:?}"));
    let (j1, j2) = $r::join(|| 1 + 1, || "x".to_string());
    out.push(format!("{j1}{j2}"));

        // adaptors added later
        let fr: Vec<i64> = v
            .par_iter()
            .fold(Vec::new, |mut a: Vec<i64>, x| {
                a.push(*x);
                a
            })
            .reduce(Vec::new, |mut a, mut b| {
                a.append(&mut b);
                a
            });
        out.push(format!("{fr:?}"));
        let tf = v.par_iter().map(|x| *x as u64).try_fold(|| 0u64, |a, x| a.checked_add(x)).try_reduce(|| 0, |a, b| a.checked_add(b));
        out.push(format!("{tf:?}"));
        let tf2 = v.par_iter().map(|x| u64::MAX / 3 + *x as u64).try_fold(|| 0u64, |a, x| a.checked_add(x)).try_reduce(|| 0, |a, b| a.checked_add(b));
        out.push(format!("{tf2:?}"));
        let tr: Result<i64, String> = v.par_iter().map(|x| Ok::<i64, String>(*x)).try_reduce(|| 0, |a, b| Ok(a + b));
        out.push(format!("{tr:?}"));
        let tr1: Result<i64, String> = v.par_iter().map(|x| if *x == 17 { Err("e17".to_string()) } else { Ok(*x) }).try_reduce(|| 0, |a, b| Ok(a + b));
        out.push(format!("{tr1:?}"));
        let sb: Vec<i64> = v.par_iter().copied().step_by(4).collect();
        out.push(format!("{sb:?}"));
        let ck: Vec<Vec<i64>> = v.par_iter().copied().chunks(5).collect();
        out.push(format!("{ck:?}"));
        let up: Vec<i64> = v.par_iter().copied().update(|x| *x += 1).collect();
        out.push(format!("{up:?}"));
        let fl: Vec<i64> = vec![vec![1i64, 2], vec![], vec![3]].into_par_iter().flatten().collect();
        out.push(format!("{fl:?}"));
        let fli: Vec<i64> = vec![vec![1i64, 2], vec![], vec![3]].into_par_iter().flatten_iter().collect();
        out.push(format!("{fli:?}"));
        let mb = v.par_iter().copied().min_by(|a, b| (a % 7).cmp(&(b % 7)).then(a.cmp(b)));
        let xb = v.par_iter().copied().max_by(|a, b| (a % 7).cmp(&(b % 7)).then(a.cmp(b)));
        out.push(format!("{mb:?}{xb:?}"));
        let rw = v.par_iter().copied().reduce_with(|a, b| a.max(b));
        out.push(format!("{rw:?}"));
        let fw: i64 = v.par_iter().fold_with(0i64, |a, x| a + *x).sum();
        out.push(format!("{fw}"));
        let idx_ok = v.par_iter().all(|_| $r::current_thread_index().is_some());
        out.push(format!("{idx_ok}"));
        let mut tfe = Vec::new();
        v.par_iter().copied().collect_into_vec(&mut tfe);
        out.push(format!("{tfe:?}"));
        out
    }};
}

fn shapes_sim() -> Vec<String> {
    shapes!(rayon)
}

fn shapes_real() -> Vec<String> {
    // inside a pool, like the code under test when it runs (current_thread_index is Some)
    real_rayon::ThreadPoolBuilder::new().num_threads(3).build().unwrap().install(|| shapes!(real_rayon))
}

#[test]
fn sequential_mode_matches_real_rayon() {
    rayon::sim::set_mode(rayon::sim::Mode::Sequential);
    assert_eq!(shapes_sim(), shapes_real());
}

#[test]
fn simulated_schedules_match_real_rayon() {
    let real = shapes_real();
    for seed in 0..200u64 {
        let real = real.clone();
        shuttle::check_random_with_seed(
            move || {
                rayon::sim::set_mode(rayon::sim::Mode::Shuttle);
                rayon::sim::set_workers(1 + (seed % 5) as usize);
                assert_eq!(shapes_sim(), real);
                rayon::sim::set_mode(rayon::sim::Mode::Sequential);
            },
            seed,
            1,
        );
    }
}

#[test]
fn first_error_is_one_of_the_errors_and_a_single_error_is_exact() {
    use rayon::prelude::*;
    for seed in 0..200u64 {
        shuttle::check_random_with_seed(
            move || {
                rayon::sim::set_mode(rayon::sim::Mode::Shuttle);
                rayon::sim::set_workers(3);
                let r: Result<Vec<i64>, i64> = (0..9i64).into_par_iter().map(|i| if i == 4 { Err(i) } else { Ok(i) }).collect();
                assert_eq!(r, Err(4));
                let r: Result<Vec<i64>, i64> = (0..9i64).into_par_iter().map(|i| if i % 4 == 1 { Err(i) } else { Ok(i) }).collect();
                assert!(matches!(r, Err(1) | Err(5)));
                rayon::sim::set_mode(rayon::sim::Mode::Sequential);
            },
            seed,
            1,
        );
    }
}
