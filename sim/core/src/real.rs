//! Driving the real entry points of essential-check on a materialised workload and
//! projecting what they return onto the observables the properties name.

use crate::model::{op_err_kind, SolErr, Verdict};
use crate::store::{SimErr, SimState, StateMap};
use crate::wl::{Entry, Mat, Workload};
use essential_check::solution::{
    self as sol, CheckPredicateConfig, MutationsError, PredicateError, PredicatesError,
    ProgramError, RunMode,
};
use essential_types::solution::SolutionSet;
use std::collections::{BTreeMap, HashMap};
use std::sync::Arc;

fn project_err(e: PredicatesError<SimErr>) -> Verdict {
    match e {
        PredicatesError::Failed(errs) => {
            let mut sols = BTreeMap::new();
            let mut order = Vec::new();
            for (ix, pe) in errs.0 {
                order.push(ix);
                let se = match pe {
                    PredicateError::InvalidNodeEdges(_) => SolErr::InvalidGraph,
                    PredicateError::ProgramErrors(pes) => {
                        let mut m = BTreeMap::new();
                        for (n, e) in pes.entries() {
                            let kind = match e {
                                ProgramError::OpsFromBytesError(_) => "FromBytes".to_string(),
                                ProgramError::ParentStackConcatOverflow(_)
                                | ProgramError::ParentMemoryConcatOverflow(_) => {
                                    "ParentConcat".to_string()
                                }
                                ProgramError::Vm(e) => {
                                    format!("Vm@{}:{}", e.0, op_err_kind(&e.1))
                                }
                            };
                            m.insert(*n, kind);
                        }
                        SolErr::Program(m)
                    }
                    PredicateError::ConstraintsUnsatisfied(u) => {
                        SolErr::Unsatisfied(u.0.into_iter().collect())
                    }
                    PredicateError::Mutations(MutationsError::DuplicateMutations(k)) => {
                        SolErr::MutDuplicate(k)
                    }
                    PredicateError::Mutations(MutationsError::DecodeError(_)) => SolErr::MutDecode,
                };
                // a solution index reported twice would be lost here: keep the first and flag it
                if sols.contains_key(&ix) {
                    return Verdict::Other(format!("solution {ix} reported twice"));
                }
                sols.insert(ix, se);
            }
            Verdict::Err { sols, order }
        }
        PredicatesError::GasOverflowed => Verdict::Other("GasOverflowed".into()),
        PredicatesError::ExistingMutations => Verdict::Other("ExistingMutations".into()),
    }
}

fn project_ok(gas: u64, before: &SolutionSet, after: &SolutionSet) -> Verdict {
    if before.solutions.len() != after.solutions.len() {
        return Verdict::Other("returned set has a different number of solutions".into());
    }
    let mut computed = Vec::new();
    for (b, a) in before.solutions.iter().zip(&after.solutions) {
        if a.predicate_to_solve != b.predicate_to_solve
            || a.predicate_data != b.predicate_data
            || a.state_mutations.len() < b.state_mutations.len()
            || a.state_mutations[..b.state_mutations.len()] != b.state_mutations[..]
        {
            return Verdict::Other("returned set changed a solution's declared content".into());
        }
        computed.push(
            a.state_mutations[b.state_mutations.len()..]
                .iter()
                .map(|m| (m.key.clone(), m.value.clone()))
                .collect(),
        );
    }
    Verdict::Ok { gas, computed }
}

/// An outputs pass over `cache` against an older pre-state (every value perturbed), muted: it
/// leaves no trace in the event log and does not consume arrival numbers. Its result is ignored.
fn prelude(w: &Workload, m: &Mat, config: &Arc<CheckPredicateConfig>, cache: &mut HashMap<u16, sol::Cache>) {
    if w.prefix_prelude && m.set.solutions.len() >= 2 {
        // the map was last used when the set was only half as long (same state)
        let mut set = m.set.clone();
        set.solutions.truncate((set.solutions.len() + 1) / 2);
        one_prelude(w, m, config, cache, w.state_map(), set);
    }
    if w.stale_prelude {
        // … or for this very set, when the state was an older one (every value different)
        let older: StateMap = w
            .state_map()
            .into_iter()
            .map(|(k, v)| (k, v.into_iter().map(|x| x ^ 0x5A5A).collect()))
            .collect();
        one_prelude(w, m, config, cache, older, m.set.clone());
    }
}

fn one_prelude(
    w: &Workload,
    m: &Mat,
    config: &Arc<CheckPredicateConfig>,
    cache: &mut HashMap<u16, sol::Cache>,
    state: StateMap,
    set: SolutionSet,
) {
    let saved = crate::store::save_counters();
    crate::events::mute(true);
    let faults = w.faults.iter().filter(|f| !matches!(f, crate::store::Fault::Transient { .. })).cloned().collect();
    let pre = SimState::new(state, faults);
    let post0: SimState = pre.post_view(StateMap::new());
    let _ = sol::check_set_predicates(
        &(pre, post0),
        Arc::new(set),
        m.predicates.clone(),
        m.programs.clone(),
        config.clone(),
        RunMode::Outputs,
        cache,
    );
    crate::events::mute(false);
    crate::store::restore_counters(saved);
}

/// Run the workload through the real checker (whatever scheduling mode is active).
pub fn run_checker(w: &Workload, m: &Mat) -> Verdict {
    let config = Arc::new(CheckPredicateConfig {
        collect_all_failures: w.collect_all,
    });
    let before = m.set.clone();
    match w.entry {
        Entry::TwoPass => {
            match sol::check_and_compute_solution_set_two_pass(
                &m.state,
                m.set.clone(),
                m.predicates.clone(),
                m.programs.clone(),
                config,
            ) {
                Ok((gas, after)) => project_ok(gas, &before, &after),
                Err(e) => project_err(e),
            }
        }
        Entry::RawOutputs => {
            let mut cache = HashMap::new();
            prelude(w, m, &config, &mut cache);
            let pre = m.state.clone();
            let post0: SimState = pre.post_view(StateMap::new());
            let set = Arc::new(m.set.clone());
            let out1 = match sol::check_set_predicates(
                &(pre.clone(), post0),
                set.clone(),
                m.predicates.clone(),
                m.programs.clone(),
                config.clone(),
                RunMode::Outputs,
                &mut cache,
            ) {
                Ok(o) => o,
                Err(e) => return project_err(e),
            };
            // the overlay the second pass reads through: declared mutations plus whatever the
            // first-pass outputs decode to (an output that does not decode fails its solution)
            let mut overlay = StateMap::new();
            let mut raw: Vec<Vec<(essential_types::Key, essential_types::Value)>> = vec![Vec::new(); m.set.solutions.len()];
            for s in &m.set.solutions {
                for mu in &s.state_mutations {
                    overlay.insert((s.predicate_to_solve.contract.0, mu.key.clone()), mu.value.clone());
                }
            }
            for d in &out1.data {
                let si = d.solution_index as usize;
                let mut seen = std::collections::BTreeSet::new();
                for o in &d.data {
                    let sol::DataOutput::Memory(mem) = o;
                    raw[si].push((vec![], mem.to_vec()));
                    match essential_types::solution::decode::decode_mutations(mem) {
                        Ok(ms) => {
                            for mu in ms {
                                if !seen.insert(mu.key.clone()) {
                                    return Verdict::Err {
                                        sols: [(d.solution_index, SolErr::MutDuplicate(mu.key))].into_iter().collect(),
                                        order: vec![d.solution_index],
                                    };
                                }
                                overlay.insert((m.set.solutions[si].predicate_to_solve.contract.0, mu.key), mu.value);
                            }
                        }
                        Err(_) => {
                            return Verdict::Err {
                                sols: [(d.solution_index, SolErr::MutDecode)].into_iter().collect(),
                                order: vec![d.solution_index],
                            }
                        }
                    }
                }
            }
            let post = pre.post_view(overlay);
            match sol::check_set_predicates(
                &(pre, post),
                set,
                m.predicates.clone(),
                m.programs.clone(),
                config,
                RunMode::Checks,
                &mut cache,
            ) {
                Ok(out2) => {
                    for d in &out2.data {
                        for o in &d.data {
                            let sol::DataOutput::Memory(mem) = o;
                            raw[d.solution_index as usize].push((vec![], mem.to_vec()));
                        }
                    }
                    Verdict::Ok {
                        gas: out1.gas.saturating_add(out2.gas),
                        computed: raw,
                    }
                }
                Err(e) => project_err(e),
            }
        }
        Entry::TwoModes => {
            // what the two-pass entry point does, driven from outside: the outputs pass, then the
            // checks pass over the same cache, with the harness's own post view
            let mut cache = HashMap::new();
            prelude(w, m, &config, &mut cache);
            let pre = m.state.clone();
            let post0: SimState = pre.post_view(StateMap::new());
            let (gas1, set1) = match sol::check_and_compute_solution_set(
                &(pre.clone(), post0),
                m.set.clone(),
                m.predicates.clone(),
                m.programs.clone(),
                config.clone(),
                RunMode::Outputs,
                &mut cache,
            ) {
                Ok(x) => x,
                Err(e) => return project_err(e),
            };
            let mut overlay = StateMap::new();
            for s in &set1.solutions {
                for mu in &s.state_mutations {
                    overlay.insert(
                        (s.predicate_to_solve.contract.0, mu.key.clone()),
                        mu.value.clone(),
                    );
                }
            }
            let post = pre.post_view(overlay);
            match sol::check_and_compute_solution_set(
                &(pre, post),
                set1,
                m.predicates.clone(),
                m.programs.clone(),
                config,
                RunMode::Checks,
                &mut cache,
            ) {
                Ok((gas2, after)) => project_ok(gas1.saturating_add(gas2), &before, &after),
                Err(e) => project_err(e),
            }
        }
    }
}
