//! VM-level simulation: one `Vm::exec` call on a simulated state device, with a
//! caller-supplied cost table (seam S4, audited), an op container of choice (seam S3),
//! and M-exec, the sequential fork/join reference loop of C10/C07.

use crate::events::{self, Ev};
use crate::hooks::{self, Snap};
use crate::model::op_err_kind;
use crate::runner::{run_sim, PanicInfo, SchedSpec, SimFailure};
use crate::store::{self, Fault, SimErr, SimState, StateMap};
use essential_asm as asm;
use essential_asm::Op;
use essential_types::{
    solution::Solution, ContentAddress, Key, PredicateAddress, Value, Word,
};
use essential_vm::{
    error::OpError, Access, BytecodeMapped, Gas, GasLimit, Memory, OpAccess, OpGasCost, Stack, Vm,
};
use serde::{Deserialize, Serialize};
use std::sync::Arc;

// ---------------------------------------------------------------------------------
// the case

#[derive(Clone, Debug, Serialize, Deserialize, PartialEq)]
pub enum CostSpec {
    Const(u64),
    /// cost = table[opcode byte % table.len()]
    Table(Vec<u64>),
    /// the price of an operation depends on the whole operation, immediates included (the cost
    /// function is handed the `Op`, not the opcode): `Push(w)` costs `1 + |w| mod m`, others 2
    ByOperand(u64),
}

impl CostSpec {
    pub fn cost(&self, op: &Op) -> u64 {
        match self {
            CostSpec::Const(c) => *c,
            CostSpec::Table(t) => {
                use essential_asm::ToOpcode;
                let b: u8 = op.to_opcode().into();
                t[b as usize % t.len()]
            }
            CostSpec::ByOperand(m) => match op {
                Op::Stack(essential_asm::Stack::Push(w)) => 1 + w.unsigned_abs() % (*m).max(1),
                _ => 2,
            },
        }
    }
}

#[derive(Clone, Debug, Serialize, Deserialize, PartialEq)]
pub enum Container {
    Slice,
    MappedOwned,
    MappedBorrowed,
    /// lazily parsing store; `fail_at`: the op index at which a fetch fails (F8)
    Lazy { fail_at: Option<usize> },
}

#[derive(Clone, Debug, Serialize, Deserialize, PartialEq)]
pub struct VmCase {
    pub program: Vec<u8>,
    pub init_stack: Vec<Word>,
    pub init_memory: Vec<Word>,
    /// predicate data of the solution being checked (solution 0 of a one-solution set) and of others
    pub solutions: Vec<Vec<Vec<Word>>>,
    pub index: usize,
    pub contract: [u8; 32],
    pub pre: Vec<([u8; 32], Key, Value)>,
    pub post: Vec<([u8; 32], Key, Value)>,
    pub faults: Vec<Fault>,
    pub cost: CostSpec,
    pub limit_total: u64,
    pub per_yield: u64,
    pub container: Container,
    pub shape: String,
    /// the VM is run the way the checker runs it: from inside the pool (`current_thread_index()`
    /// is `Some`), not from an outside thread
    #[serde(default)]
    pub on_worker: bool,
}

impl VmCase {
    pub fn ops(&self) -> Vec<Op> {
        crate::ops::from_bytes(&self.program).unwrap_or_default()
    }
    /// Solution 0 solves a predicate of `contract`; the others belong to other contracts.
    pub fn contract_of(&self, i: usize) -> [u8; 32] {
        let mut c = self.contract;
        c[31] ^= i as u8;
        c
    }
    pub fn solutions_arc(&self) -> Arc<Vec<Solution>> {
        Arc::new(
            self.solutions
                .iter()
                .enumerate()
                .map(|(i, d)| Solution {
                    predicate_to_solve: PredicateAddress {
                        contract: ContentAddress(self.contract_of(i)),
                        predicate: ContentAddress([i as u8 + 1; 32]),
                    },
                    predicate_data: d.clone(),
                    state_mutations: vec![],
                })
                .collect(),
        )
    }
    pub fn states(&self) -> (SimState, SimState) {
        let pre: StateMap = self
            .pre
            .iter()
            .map(|(c, k, v)| ((*c, k.clone()), v.clone()))
            .collect();
        let post: StateMap = self
            .post
            .iter()
            .map(|(c, k, v)| ((*c, k.clone()), v.clone()))
            .collect();
        let p = SimState::new(pre, self.faults.clone());
        let q = p.post_view(post);
        (p, q)
    }
}

// ---------------------------------------------------------------------------------
// seams S3 / S4

/// S4: the metering seam. Every call is audited (event log) and is a scheduling point.
pub struct SimCost(pub CostSpec);
impl OpGasCost for SimCost {
    fn op_gas_cost(&self, op: &Op) -> Gas {
        let c = self.0.cost(op);
        events::push(Ev::Charge { cost: c });
        rayon::sim::switch_point();
        c
    }
}

/// S3: a lazily parsing op store that can fail at an index.
#[derive(Clone)]
pub struct LazyOps {
    pub bytes: Arc<Vec<u8>>,
    pub offsets: Arc<Vec<usize>>,
    pub fail_at: Option<usize>,
}
impl LazyOps {
    pub fn new(bytes: &[u8], fail_at: Option<usize>) -> Self {
        let mut offsets = Vec::new();
        let mut i = 0;
        while i < bytes.len() {
            offsets.push(i);
            i += if bytes[i] == 0x01 { 9 } else { 1 };
        }
        LazyOps {
            bytes: Arc::new(bytes.to_vec()),
            offsets: Arc::new(offsets),
            fail_at,
        }
    }
}
impl OpAccess for LazyOps {
    type Op = Op;
    type Error = asm::FromBytesError;
    fn op_access(&self, index: usize) -> Option<Result<Op, Self::Error>> {
        rayon::sim::switch_point();
        if self.fail_at == Some(index) {
            return Some(Err(asm::FromBytesError::NotEnoughBytes(asm::NotEnoughBytesError)));
        }
        let off = *self.offsets.get(index)?;
        let mut it = self.bytes[off..].iter().copied();
        use essential_asm::TryFromBytes;
        Op::try_from_bytes(&mut it)
    }
}

// ---------------------------------------------------------------------------------
// outcome

#[derive(Clone, Debug, PartialEq, Eq, Serialize, Deserialize)]
pub struct VmState {
    pub pc: usize,
    pub stack: Vec<Word>,
    pub memory: Vec<Word>,
    pub halt: bool,
    pub parent_depth: usize,
    pub repeat_depth: usize,
}

#[derive(Clone, Debug, PartialEq, Eq, Serialize, Deserialize)]
pub enum VmResult {
    Ok { gas: u64 },
    /// (pc, kind); for OutOfGas also the reported numbers
    Err {
        pc: usize,
        kind: String,
        oog: Option<(u64, u64, u64)>,
    },
}

#[derive(Clone, Debug)]
pub struct VmOutcome {
    pub result: VmResult,
    pub state: VmState,
    /// the audit trail: every cost handed out by the cost seam, in global order
    pub charges: Vec<u64>,
    pub before: Vec<Snap>,
    pub after: Vec<Snap>,
    pub reads: Vec<Ev>,
    pub hook: HookSummary,
}

#[derive(Clone, Debug, Default)]
pub struct HookSummary {
    pub bound_violation: Option<String>,
    pub ops_stepped: u64,
    pub max_stack: usize,
    pub max_memory: usize,
    pub max_repeat: usize,
}

fn state_of(vm: &Vm) -> VmState {
    VmState {
        pc: vm.pc,
        stack: vm.stack.to_vec(),
        memory: vm.memory.to_vec(),
        halt: vm.halt,
        parent_depth: vm.parent_memory.len(),
        repeat_depth: vm.repeat.depth(),
    }
}

fn result_of(r: Result<Gas, essential_vm::error::ExecError<SimErr>>) -> VmResult {
    match r {
        Ok(g) => VmResult::Ok { gas: g },
        Err(e) => {
            let oog = match &e.1 {
                OpError::OutOfGas(o) => Some((o.spent, o.op_gas, o.limit)),
                _ => None,
            };
            VmResult::Err {
                pc: e.0,
                kind: op_err_kind(&e.1),
                oog,
            }
        }
    }
}

pub struct RunOpts {
    pub snapshots: bool,
    pub snap_limit: usize,
    pub op_budget: u64,
    pub item_budget: u64,
    pub device_budget: u64,
    /// after the first call, reset pc and stack and execute again on behalf of this solution
    /// index (same VM, same lazily cached data)
    pub then_as: Option<usize>,
}

impl Default for RunOpts {
    fn default() -> Self {
        RunOpts {
            snapshots: false,
            snap_limit: 0,
            op_budget: 400_000,
            item_budget: 100_000,
            device_budget: 200_000,
            then_as: None,
        }
    }
}

pub fn initial_vm(case: &VmCase) -> Result<Vm, String> {
    let mut vm = Vm::default();
    vm.stack = Stack::try_from(case.init_stack.clone()).map_err(|e| e.to_string())?;
    vm.memory = Memory::try_from(case.init_memory.clone()).map_err(|e| e.to_string())?;
    Ok(vm)
}

/// Execute the case on the real VM (in whatever scheduling mode is active on this thread).
pub fn exec_real(case: &VmCase, vm: &mut Vm, limit_total: u64) -> VmResult {
    exec_real_as(case, vm, limit_total, case.index)
}

/// … on behalf of solution `index`.
pub fn exec_real_as(case: &VmCase, vm: &mut Vm, limit_total: u64, index: usize) -> VmResult {
    let access = Access {
        solutions: case.solutions_arc(),
        index,
    };
    let (pre, post) = case.states();
    let st = (pre, post);
    let cost = SimCost(case.cost.clone());
    let limit = GasLimit {
        per_yield: case.per_yield,
        total: limit_total,
    };
    let ops = case.ops();
    if case.on_worker && rayon::current_thread_index().is_none() {
        return rayon::sim::as_pool_worker(0, || exec_real_as(case, vm, limit_total, index));
    }
    let r = match &case.container {
        Container::Slice => vm.exec_ops(&ops, access, &st, &cost, limit),
        Container::MappedOwned => match BytecodeMapped::try_from_bytes(case.program.clone()) {
            Ok(m) => vm.exec_bytecode(&m, access, &st, &cost, limit),
            Err(_) => vm.exec_ops(&ops, access, &st, &cost, limit),
        },
        Container::MappedBorrowed => match BytecodeMapped::try_from_bytes(&case.program[..]) {
            Ok(m) => vm.exec_bytecode(&m, access, &st, &cost, limit),
            Err(_) => vm.exec_ops(&ops, access, &st, &cost, limit),
        },
        Container::Lazy { fail_at } => {
            let lazy = LazyOps::new(&case.program, *fail_at);
            vm.exec(access, &st, lazy, &cost, limit)
        }
    };
    result_of(r)
}

#[derive(Debug)]
pub enum VmRunError {
    Panic(PanicInfo),
    Budget,
    Deadlock(String),
    StepLimit,
    Harness(String),
}

/// One simulated execution of the real VM on the case.
pub fn run_vm(
    case: &Arc<VmCase>,
    spec: &SchedSpec,
    limit_total: u64,
    opts: RunOpts,
) -> (Result<VmOutcome, VmRunError>, crate::oracle::ExecInfo) {
    let c2 = case.clone();
    let out = run_sim(spec, move || {
        events::reset(true);
        hooks::reset(opts.snapshots, opts.snap_limit);
        store::reset_faults(opts.device_budget);
        rayon::sim::set_item_budget(opts.item_budget);
        hooks::set_op_budget(opts.op_budget);
        let r = crate::runner::catch(|| {
            let mut vm = initial_vm(&c2).expect("initial state within bounds");
            let mut res = exec_real(&c2, &mut vm, limit_total);
            if let Some(ix) = opts.then_as {
                vm.pc = 0;
                vm.stack = Stack::try_from(c2.init_stack.clone()).expect("initial stack");
                res = exec_real_as(&c2, &mut vm, limit_total, ix);
            }
            (res, state_of(&vm))
        });
        (r, events::take(), hooks::take(), store::fired())
    });
    let mut info = crate::oracle::ExecInfo {
        steps: out.steps,
        context_switches: out.context_switches,
        order_hash: out.stats.order_hash,
        regions_multi: out.stats.regions_multi,
        overlaps: out.stats.overlaps,
        out_of_order: out.stats.out_of_order_starts,
        skipped: out.stats.skipped,
        multi_error_regions: out.stats.multi_error_regions,
        max_in_flight: out.stats.max_in_flight,
        ..Default::default()
    };
    match out.result {
        Err(SimFailure::Panic(p)) => (Err(VmRunError::Panic(p)), info),
        Err(SimFailure::Deadlock(m)) => (Err(VmRunError::Deadlock(m)), info),
        Err(SimFailure::StepLimit) => (Err(VmRunError::StepLimit), info),
        Err(SimFailure::ItemBudget) => (Err(VmRunError::Budget), info),
        Err(SimFailure::ReplayDiverged(m)) => (Err(VmRunError::Harness(m)), info),
        Ok((r, log, hs, fc)) => {
            info.steps += log.reads;
            info.event_hash = log.hash;
            info.reads = log.reads;
            info.ops = log.ops;
            info.faults = fc;
            info.lazy_sync = hs.lazy_sync;
            match r {
                Err(p) => {
                    if p.message.contains("budget") {
                        (Err(VmRunError::Budget), info)
                    } else if p.location.contains("/verif/sim/") {
                        (Err(VmRunError::Harness(format!("{} at {}", p.message, p.location))), info)
                    } else {
                        (Err(VmRunError::Panic(p)), info)
                    }
                }
                Ok((result, state)) => {
                    let charges = log
                        .events
                        .iter()
                        .filter_map(|e| match e {
                            Ev::Charge { cost } => Some(*cost),
                            _ => None,
                        })
                        .collect();
                    let reads = log
                        .events
                        .iter()
                        .filter(|e| matches!(e, Ev::Read { .. }))
                        .cloned()
                        .collect();
                    (
                        Ok(VmOutcome {
                            result,
                            state,
                            charges,
                            before: hs.before,
                            after: hs.after,
                            reads,
                            hook: HookSummary {
                                bound_violation: hs.bound_violation,
                                ops_stepped: hs.ops_stepped,
                                max_stack: hs.max_stack,
                                max_memory: hs.max_memory,
                                max_repeat: hs.max_repeat,
                            },
                        }),
                        info,
                    )
                }
            }
        }
    }
}

// ---------------------------------------------------------------------------------
// M-exec: the sequential reference loop (C10 / C07)

/// What M-exec recorded about one `Compute` it executed.
#[derive(Clone, Debug)]
pub struct ForkRecord {
    pub pc: usize,
    pub parent_stack: Vec<Word>,
    pub parent_memory: Vec<Word>,
    pub breadth: Word,
}

pub struct MExec<'a> {
    pub ops: &'a [Op],
    pub access: Access,
    pub states: &'a (SimState, SimState),
    pub cost: &'a CostSpec,
    /// every cost charged, in sequential order
    pub audit: Vec<u64>,
    pub forks: Vec<ForkRecord>,
    pub op_budget: u64,
    pub budget_hit: bool,
    /// F8: the instruction store cannot deliver the operation at this index
    pub fail_at: Option<usize>,
}

#[derive(Clone, Debug, PartialEq, Eq)]
pub struct MErr {
    pub pc: usize,
    pub kind: String,
}

struct NoCost;
impl OpGasCost for NoCost {
    fn op_gas_cost(&self, _op: &Op) -> Gas {
        0
    }
}

impl MExec<'_> {
    /// Run `vm` to completion with unlimited gas. Returns the total gas (u128: the reference
    /// does its own arithmetic) or the first error in sequential order.
    pub fn run(&mut self, vm: &mut Vm) -> Result<u128, MErr> {
        let mut gas: u128 = 0;
        loop {
            if self.fail_at == Some(vm.pc) && vm.pc < self.ops.len() {
                // whoever gets here (parent or child) fails with the store's error, before
                // anything is charged
                return Err(MErr {
                    pc: vm.pc,
                    kind: "FromBytes".into(),
                });
            }
            let Some(op) = self.ops.get(vm.pc).copied() else {
                break;
            };
            if self.op_budget == 0 {
                self.budget_hit = true;
                return Err(MErr {
                    pc: vm.pc,
                    kind: "BUDGET".into(),
                });
            }
            self.op_budget -= 1;
            let c = self.cost.cost(&op);
            self.audit.push(c);
            gas += c as u128;
            match op {
                Op::Compute(asm::Compute::Compute) => {
                    let pc = vm.pc;
                    let err = |k: &str| MErr {
                        pc,
                        kind: k.to_string(),
                    };
                    // breadth below 1, nested compute: the parent fails
                    let n = vm.stack.pop().map_err(|_| err("Compute"))?;
                    if n < 1 {
                        return Err(err("Compute"));
                    }
                    if !vm.parent_memory.is_empty() {
                        return Err(err("Compute"));
                    }
                    let parent_mem = Arc::new(vm.memory.clone());
                    self.forks.push(ForkRecord {
                        pc,
                        parent_stack: vm.stack.to_vec(),
                        parent_memory: vm.memory.to_vec(),
                        breadth: n,
                    });
                    let mut joined: Vec<Word> = vm.memory.to_vec();
                    let mut max_pc = pc;
                    let mut halt = vm.halt;
                    // "as if n child programs ran one after another"
                    for i in 0..n {
                        // a child that executes no op still counts against the budget
                        if self.op_budget == 0 {
                            self.budget_hit = true;
                            return Err(MErr {
                                pc,
                                kind: "BUDGET".into(),
                            });
                        }
                        self.op_budget -= 1;
                        let mut stack = vm.stack.clone();
                        stack.push(i).map_err(|_| err("Compute"))?;
                        let mut child = Vm {
                            pc: pc + 1,
                            stack,
                            memory: Memory::new(),
                            parent_memory: vec![parent_mem.clone()],
                            halt: false,
                            repeat: vm.repeat.clone(),
                            cache: vm.cache.clone(),
                            // anything else a VM may come to carry starts out fresh in a child
                            ..Default::default()
                        };
                        let g = self.run(&mut child).map_err(|e| {
                            if e.kind == "BUDGET" {
                                e
                            } else {
                                err("Compute")
                            }
                        })?;
                        gas += g;
                        max_pc = max_pc.max(child.pc);
                        halt |= child.halt;
                        joined.extend_from_slice(&child.memory);
                        if joined.len() > hooks::MEMORY_LIMIT + 64 * 1024 * 1024 {
                            return Err(err("Compute"));
                        }
                    }
                    // combined memory above the limit fails the parent
                    vm.memory = Memory::try_from(joined).map_err(|_| err("Memory"))?;
                    vm.pc = max_pc;
                    vm.halt = halt;
                    if vm.halt {
                        break;
                    }
                }
                Op::Compute(asm::Compute::ComputeEnd) => {
                    vm.pc += 1;
                    break;
                }
                other => {
                    let r = essential_vm::sync::step_op(
                        self.access.clone(),
                        other,
                        vm,
                        self.states,
                        self.ops,
                        &NoCost,
                        GasLimit::UNLIMITED,
                    );
                    match r {
                        Err(e) => {
                            return Err(MErr {
                                pc: vm.pc,
                                kind: op_err_kind(&e),
                            })
                        }
                        Ok(None) => vm.pc += 1,
                        Ok(Some(essential_vm::ProgramControlFlow::Pc(p))) => vm.pc = p,
                        Ok(Some(essential_vm::ProgramControlFlow::Halt)) => break,
                        Ok(Some(essential_vm::ProgramControlFlow::ComputeEnd)) => {
                            vm.pc += 1;
                            break;
                        }
                        Ok(Some(essential_vm::ProgramControlFlow::ComputeResult(_))) => {
                            unreachable!("compute is handled by the reference loop")
                        }
                    }
                }
            }
        }
        Ok(gas)
    }
}

pub struct MOutcome {
    pub result: Result<u128, MErr>,
    pub state: VmState,
    pub audit: Vec<u64>,
    pub forks: Vec<ForkRecord>,
    pub budget_hit: bool,
}

/// Reference execution of the case (sequential, unlimited gas, fault plan applied by the
/// same content-keyed device).
pub fn m_exec(case: &VmCase, op_budget: u64) -> Result<MOutcome, PanicInfo> {
    rayon::sim::set_mode(rayon::sim::Mode::Sequential);
    events::reset(false);
    hooks::reset(false, 0);
    hooks::set_op_budget(u64::MAX);
    store::reset_faults(u64::MAX);
    let ops = case.ops();
    let states = case.states();
    let mut vm = initial_vm(case).expect("initial state within bounds");
    let mut m = MExec {
        ops: &ops,
        access: Access {
            solutions: case.solutions_arc(),
            index: case.index,
        },
        states: &states,
        cost: &case.cost,
        audit: Vec::new(),
        forks: Vec::new(),
        op_budget,
        budget_hit: false,
        fail_at: match &case.container {
            Container::Lazy { fail_at } => *fail_at,
            _ => None,
        },
    };
    let r = crate::runner::catch(|| m.run(&mut vm));
    match r {
        Ok(result) => Ok(MOutcome {
            result,
            state: state_of(&vm),
            audit: std::mem::take(&mut m.audit),
            forks: std::mem::take(&mut m.forks),
            budget_hit: m.budget_hit,
        }),
        Err(p) => Err(p),
    }
}
