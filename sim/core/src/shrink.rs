//! Minimisation of a failing scenario while the same violation *class* persists:
//! schedule first (sequential → shallow PCT → as found), then faults, then the workload
//! (solutions, mutations, pre-state, programs op by op).

use crate::ops;
use crate::props::{evaluate, Scenario};
use crate::runner::{SchedKind, SchedSpec};
use crate::wl::Workload;
use std::time::{Duration, Instant};

fn parts(sc: &Scenario) -> (&Workload, &SchedSpec) {
    match sc {
        Scenario::ModelEq { w, spec }
        | Scenario::AltNumbering { w, spec, .. }
        | Scenario::Determinism { w, spec }
        | Scenario::Permutation { w, spec, .. }
        | Scenario::Transient { w, spec }
        | Scenario::AfterOther { w, spec, .. } => (w, spec),
    }
}

fn with_spec(sc: &Scenario, s: SchedSpec) -> Scenario {
    let mut c = sc.clone();
    match &mut c {
        Scenario::ModelEq { spec, .. }
        | Scenario::AltNumbering { spec, .. }
        | Scenario::Determinism { spec, .. }
        | Scenario::Permutation { spec, .. }
        | Scenario::Transient { spec, .. }
        | Scenario::AfterOther { spec, .. } => *spec = s,
    }
    c
}

fn with_workload(sc: &Scenario, nw: Workload) -> Option<Scenario> {
    let mut c = sc.clone();
    match &mut c {
        Scenario::ModelEq { w, .. }
        | Scenario::Determinism { w, .. }
        | Scenario::Transient { w, .. }
        | Scenario::AfterOther { w, .. } => *w = nw,
        Scenario::Permutation { w, perm, .. } => {
            if nw.sols.len() != w.sols.len() {
                // a solution was dropped: keep the relative order of the rest
                if nw.sols.len() + 1 != w.sols.len() {
                    return None;
                }
                // find which index disappeared (the workloads differ only by one removal)
                let gone = (0..w.sols.len())
                    .find(|&i| i >= nw.sols.len() || w.sols[i] != nw.sols[i])
                    .unwrap_or(w.sols.len() - 1);
                perm.retain(|p| *p != gone);
                for p in perm.iter_mut() {
                    if *p > gone {
                        *p -= 1;
                    }
                }
                if perm.iter().enumerate().all(|(i, p)| i == *p) {
                    return None; // identity permutation proves nothing
                }
            }
            *w = nw;
        }
        // the second encoding would have to be shrunk in lock-step: not attempted
        Scenario::AltNumbering { .. } => return None,
    }
    Some(c)
}

fn reproduces(sc: &Scenario, class: &str) -> bool {
    evaluate(sc)
        .finding
        .map(|f| f.class == class)
        .unwrap_or(false)
}

/// Does the scenario reproduce under its own schedule or under one of a few nearby ones?
fn reproduces_somehow(sc: &Scenario, class: &str) -> Option<Scenario> {
    if reproduces(sc, class) {
        return Some(sc.clone());
    }
    let (_, spec) = parts(sc);
    if spec.kind == SchedKind::Sequential {
        return None;
    }
    for i in 0..12u64 {
        let s = SchedSpec {
            kind: match &spec.kind {
                SchedKind::Replay(_) => SchedKind::Random,
                k => k.clone(),
            },
            seed: crate::rng::derive(spec.seed, &[i + 1]),
            ..spec.clone()
        };
        let c = with_spec(sc, s);
        if reproduces(&c, class) {
            return Some(c);
        }
    }
    None
}

pub struct Shrunk {
    pub scenario: Scenario,
    pub steps_tried: u64,
    pub steps_kept: u64,
    pub schedule_irrelevant: bool,
}

pub fn shrink(sc: &Scenario, class: &str, budget: Duration) -> Shrunk {
    let t0 = Instant::now();
    let mut cur = sc.clone();
    let mut tried = 0u64;
    let mut kept = 0u64;
    let mut schedule_irrelevant = false;

    // 1. schedule
    let seq = with_spec(&cur, SchedSpec::sequential());
    tried += 1;
    if reproduces(&seq, class) {
        cur = seq;
        kept += 1;
        schedule_irrelevant = true;
    } else {
        'outer: for depth in 1..=3usize {
            for i in 0..24u64 {
                if t0.elapsed() > budget / 3 {
                    break 'outer;
                }
                let s = SchedSpec {
                    kind: SchedKind::Pct(depth),
                    seed: crate::rng::derive(parts(&cur).1.seed, &[depth as u64, i]),
                    workers: 2,
                    per_op_switch: parts(&cur).1.per_op_switch,
                };
                let c = with_spec(&cur, s);
                tried += 1;
                if reproduces(&c, class) {
                    cur = c;
                    kept += 1;
                    break 'outer;
                }
            }
        }
    }

    // 2./3. faults and workload, to a fixed point
    let mut progress = true;
    while progress && t0.elapsed() < budget {
        progress = false;
        let candidates = workload_candidates(parts(&cur).0, !class.starts_with("history-"));
        for nw in candidates {
            if t0.elapsed() > budget {
                break;
            }
            let Some(c) = with_workload(&cur, nw) else {
                continue;
            };
            tried += 1;
            if let Some(c2) = reproduces_somehow(&c, class) {
                cur = c2;
                kept += 1;
                progress = true;
                break; // recompute candidates from the smaller workload
            }
        }
    }
    Shrunk {
        scenario: cur,
        steps_tried: tried,
        steps_kept: kept,
        schedule_irrelevant,
    }
}

/// Smaller variants of a workload, most aggressive first.
fn workload_candidates(w: &Workload, touch_programs: bool) -> Vec<Workload> {
    let mut out = Vec::new();
    // drop faults
    for i in 0..w.faults.len() {
        let mut c = w.clone();
        c.faults.remove(i);
        out.push(c);
    }
    // drop solutions
    if w.sols.len() > 1 {
        for i in 0..w.sols.len() {
            let mut c = w.clone();
            c.sols.remove(i);
            out.push(c);
        }
    }
    // drop all pre-state, then single entries
    if !w.pre.is_empty() {
        let mut c = w.clone();
        c.pre.clear();
        out.push(c);
        if w.pre.len() <= 24 {
            for i in 0..w.pre.len() {
                let mut c = w.clone();
                c.pre.remove(i);
                out.push(c);
            }
        }
    }
    // drop mutations
    for (si, s) in w.sols.iter().enumerate() {
        for mi in 0..s.muts.len() {
            let mut c = w.clone();
            c.sols[si].muts.remove(mi);
            out.push(c);
        }
    }
    // drop trailing nodes of a predicate when nothing refers to them
    for (pi, p) in w.preds.iter().enumerate() {
        let n = p.nodes.len();
        if n > 1 && !p.edges.iter().any(|e| *e as usize == n - 1) && p.nodes[n - 1].0 == crate::graph::LEAF {
            let mut c = w.clone();
            c.preds[pi].nodes.pop();
            out.push(c);
        }
    }
    // beacons off: strip the beacon fragments by regenerating programs without them is not
    // possible from bytes; instead shorten programs generically
    for (pi, prog) in w.programs.iter().enumerate() {
        if !touch_programs {
            break;
        }
        let Ok(opsv) = ops::from_bytes(prog) else {
            continue;
        };
        if opsv.is_empty() {
            continue;
        }
        // empty program
        let mut c = w.clone();
        c.programs[pi] = Vec::new();
        out.push(c);
        // halves, then single ops for short programs
        if opsv.len() >= 4 {
            for (a, b) in [(0, opsv.len() / 2), (opsv.len() / 2, opsv.len())] {
                let mut v = opsv.clone();
                v.drain(a..b);
                let mut c = w.clone();
                c.programs[pi] = ops::to_bytes(&v);
                out.push(c);
            }
        }
        if opsv.len() <= 24 {
            for i in 0..opsv.len() {
                let mut v = opsv.clone();
                v.remove(i);
                let mut c = w.clone();
                c.programs[pi] = ops::to_bytes(&v);
                out.push(c);
            }
        }
    }
    // fail-fast is the simpler configuration
    if w.collect_all {
        let mut c = w.clone();
        c.collect_all = false;
        out.push(c);
    }
    out
}
