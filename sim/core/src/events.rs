//! The per-execution event log: one global sequence ("simulated time" = sequence number)
//! shared by all seams and hooks. Thread-local to the OS thread that runs the execution.

use essential_types::{Key, Word};
use serde::{Deserialize, Serialize};
use std::cell::RefCell;

pub type CA = [u8; 32];

#[derive(Clone, Copy, Debug, PartialEq, Eq, Hash, PartialOrd, Ord, Serialize, Deserialize)]
pub enum View {
    Pre,
    Post,
}

#[derive(Clone, Debug, PartialEq, Eq, Hash)]
pub enum Ev {
    /// S1: a device request and how it was answered
    Read {
        view: View,
        contract: CA,
        key: Key,
        n: usize,
        /// None = ok, Some(id) = error with that id
        err: Option<u32>,
        values: usize,
        /// what the device returned (kept only when the log keeps events)
        data: Option<Vec<Vec<Word>>>,
    },
    /// S2: program fetched
    Fetch { program: CA },
    /// S2: predicate fetched
    GetPredicate { predicate: CA },
    /// H2
    Sync(&'static str),
    /// C07: gas charged for an op (S4)
    Charge { cost: u64 },
}

#[derive(Default)]
pub struct Log {
    pub events: Vec<Ev>,
    pub keep: bool,
    pub reads: u64,
    pub fetches: u64,
    pub syncs: u64,
    pub ops: u64,
    pub hash: u64,
}

thread_local! {
    static LOG: RefCell<Log> = RefCell::new(Log::default());
    static MUTED: std::cell::Cell<bool> = const { std::cell::Cell::new(false) };
}

/// While muted, seam calls are served but leave no trace in the log (used for a prelude that
/// is not part of the execution under observation).
pub fn mute(on: bool) {
    MUTED.with(|m| m.set(on));
}
pub fn muted() -> bool {
    MUTED.with(|m| m.get())
}

pub fn reset(keep: bool) {
    mute(false);
    LOG.with(|l| {
        *l.borrow_mut() = Log {
            keep,
            hash: 0xcbf29ce484222325,
            ..Default::default()
        }
    });
}

fn mix(h: &mut u64, v: u64) {
    *h ^= v;
    *h = h.wrapping_mul(0x100000001b3);
}

pub fn push(ev: Ev) {
    if muted() {
        return;
    }
    LOG.with(|l| {
        let mut l = l.borrow_mut();
        match &ev {
            Ev::Read { view, contract, key, n, err, values, .. } => {
                l.reads += 1;
                let mut h = l.hash;
                mix(&mut h, 1 + *view as u64);
                mix(&mut h, u64::from_le_bytes(contract[..8].try_into().unwrap()));
                for w in key {
                    mix(&mut h, *w as u64);
                }
                mix(&mut h, *n as u64);
                mix(&mut h, err.map(|e| e as u64 + 1).unwrap_or(0));
                mix(&mut h, *values as u64);
                l.hash = h;
            }
            Ev::Fetch { program } => {
                l.fetches += 1;
                let mut h = l.hash;
                mix(&mut h, 7);
                mix(&mut h, u64::from_le_bytes(program[..8].try_into().unwrap()));
                l.hash = h;
            }
            Ev::GetPredicate { predicate } => {
                let mut h = l.hash;
                mix(&mut h, 8);
                mix(&mut h, u64::from_le_bytes(predicate[..8].try_into().unwrap()));
                l.hash = h;
            }
            Ev::Sync(_) => {
                l.syncs += 1;
                let mut h = l.hash;
                mix(&mut h, 9);
                l.hash = h;
            }
            Ev::Charge { cost } => {
                let mut h = l.hash;
                mix(&mut h, 10);
                mix(&mut h, *cost);
                l.hash = h;
            }
        }
        if l.keep {
            l.events.push(ev);
        } else if let Ev::Read { .. } = ev {
            // dropped
        }
    });
}

pub fn keeping() -> bool {
    LOG.with(|l| l.borrow().keep)
}

pub fn count_op() {
    if muted() {
        return;
    }
    LOG.with(|l| l.borrow_mut().ops += 1);
}

pub fn take() -> Log {
    LOG.with(|l| std::mem::take(&mut *l.borrow_mut()))
}

pub fn with<R>(f: impl FnOnce(&Log) -> R) -> R {
    LOG.with(|l| f(&l.borrow()))
}

pub fn fmt_key(k: &[Word]) -> String {
    format!("{k:?}")
}
