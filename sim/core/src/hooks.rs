//! Harness side of the /repo hooks H1 (VM before/after every op) and H2 (sync points):
//! bound monitors (C05), optional per-op switch points, optional VM snapshots (C07/C10).

use crate::events::{self, Ev};
use essential_vm::verif::{Hooks, VmEvent};
use essential_vm::Vm;
use std::cell::{Cell, RefCell};

#[derive(Clone, Debug, PartialEq)]
pub struct Snap {
    pub pc: usize,
    pub stack: Vec<i64>,
    pub memory: Vec<i64>,
    pub parent_memory: Vec<Vec<i64>>,
    pub repeat_depth: usize,
    pub gas_spent: u64,
    /// address of the VM object: distinguishes VMs alive at the same time
    pub vm_id: usize,
}

#[derive(Default)]
pub struct HookState {
    /// first bound violation seen in this execution
    pub bound_violation: Option<String>,
    pub max_stack: usize,
    pub max_memory: usize,
    pub max_repeat: usize,
    pub max_parent_depth: usize,
    pub ops_stepped: u64,
    /// snapshots taken at BeforeOp (state the op at `pc` will see)
    pub before: Vec<Snap>,
    /// snapshots taken at AfterOp
    pub after: Vec<Snap>,
    pub lazy_sync: u64,
}

thread_local! {
    static STATE: RefCell<HookState> = RefCell::new(HookState::default());
    static SNAPSHOTS: Cell<bool> = const { Cell::new(false) };
    static SNAP_LIMIT: Cell<usize> = const { Cell::new(0) };
    static OP_BUDGET: Cell<u64> = const { Cell::new(u64::MAX) };
}

pub const STACK_LIMIT: usize = 4096;
pub const MEMORY_LIMIT: usize = 10240;
pub const REPEAT_LIMIT: usize = 4096;
pub const COMPUTE_DEPTH_LIMIT: usize = 1;

pub fn reset(snapshots: bool, snap_limit: usize) {
    STATE.with(|s| *s.borrow_mut() = HookState::default());
    SNAPSHOTS.with(|c| c.set(snapshots));
    SNAP_LIMIT.with(|c| c.set(snap_limit));
}

/// Bound the number of VM ops an execution may step (legitimate non-termination under
/// unlimited gas becomes a counted, non-violating outcome).
pub fn set_op_budget(n: u64) {
    OP_BUDGET.with(|c| c.set(n));
}

pub fn take() -> HookState {
    STATE.with(|s| std::mem::take(&mut *s.borrow_mut()))
}

fn snap(vm: &Vm, gas: u64) -> Snap {
    Snap {
        pc: vm.pc,
        stack: vm.stack.to_vec(),
        memory: vm.memory.to_vec(),
        parent_memory: vm.parent_memory.iter().map(|m| m.to_vec()).collect(),
        repeat_depth: vm.repeat.depth(),
        gas_spent: gas,
        vm_id: vm as *const Vm as usize,
    }
}

fn on_vm(ev: VmEvent, vm: &Vm, gas: u64) {
    match ev {
        VmEvent::BeforeOp => {
            if SNAPSHOTS.with(|c| c.get()) {
                STATE.with(|s| {
                    let mut s = s.borrow_mut();
                    if s.before.len() < SNAP_LIMIT.with(|c| c.get()) {
                        let sn = snap(vm, gas);
                        s.before.push(sn);
                    }
                });
            }
        }
        VmEvent::AfterOp => {
            events::count_op();
            let left = OP_BUDGET.with(|c| {
                let v = c.get();
                if v != u64::MAX && v > 0 {
                    c.set(v - 1);
                }
                v
            });
            if left == 0 {
                std::panic::panic_any(rayon::sim::BudgetExceeded);
            }
            STATE.with(|s| {
                let mut s = s.borrow_mut();
                s.ops_stepped += 1;
                let (st, me, re, pd) = (
                    vm.stack.len(),
                    (&vm.memory[..]).len(),
                    vm.repeat.depth(),
                    vm.parent_memory.len(),
                );
                s.max_stack = s.max_stack.max(st);
                s.max_memory = s.max_memory.max(me);
                s.max_repeat = s.max_repeat.max(re);
                s.max_parent_depth = s.max_parent_depth.max(pd);
                if s.bound_violation.is_none()
                    && (st > STACK_LIMIT
                        || me > MEMORY_LIMIT
                        || re > REPEAT_LIMIT
                        || pd > COMPUTE_DEPTH_LIMIT)
                {
                    s.bound_violation = Some(format!(
                        "after op at pc {}: stack={st} memory={me} repeat={re} compute_depth={pd}",
                        vm.pc
                    ));
                }
                if SNAPSHOTS.with(|c| c.get()) && s.after.len() < SNAP_LIMIT.with(|c| c.get()) {
                    let sn = snap(vm, gas);
                    s.after.push(sn);
                }
            });
            if crate::runner::per_op_switch() {
                rayon::sim::switch_point();
            }
        }
    }
}

fn sync_point(name: &'static str) {
    STATE.with(|s| s.borrow_mut().lazy_sync += 1);
    events::push(Ev::Sync(name));
    rayon::sim::switch_point();
}

/// Install the hooks into essential-vm (once per process).
pub fn install() {
    let _ = essential_vm::verif::install(Hooks { on_vm, sync_point });
}
