//! Shorthand constructors for essential-asm operations and small program fragments.
#![allow(non_snake_case)]

use essential_asm as asm;
pub use essential_asm::Op;
use essential_types::Word;

pub fn PUSH(w: Word) -> Op {
    Op::Stack(asm::Stack::Push(w))
}
macro_rules! op0 {
    ($($name:ident => $e:expr),* $(,)?) => { $(pub fn $name() -> Op { $e.into() })* };
}
op0! {
    POP => asm::Stack::Pop, DUP => asm::Stack::Dup, DUPF => asm::Stack::DupFrom, SWAP => asm::Stack::Swap,
    SWAPI => asm::Stack::SwapIndex, SEL => asm::Stack::Select, SLTR => asm::Stack::SelectRange,
    REP => asm::Stack::Repeat, REPE => asm::Stack::RepeatEnd, RES => asm::Stack::Reserve,
    LODS => asm::Stack::Load, STOS => asm::Stack::Store, DROP => asm::Stack::Drop,
    EQ => asm::Pred::Eq, EQRA => asm::Pred::EqRange, GT => asm::Pred::Gt, LT => asm::Pred::Lt,
    GTE => asm::Pred::Gte, LTE => asm::Pred::Lte, AND => asm::Pred::And, OR => asm::Pred::Or,
    NOT => asm::Pred::Not, EQST => asm::Pred::EqSet, BAND => asm::Pred::BitAnd, BOR => asm::Pred::BitOr,
    ADD => asm::Alu::Add, SUB => asm::Alu::Sub, MUL => asm::Alu::Mul, DIV => asm::Alu::Div,
    MOD => asm::Alu::Mod, SHL => asm::Alu::Shl, SHR => asm::Alu::Shr, SHRI => asm::Alu::ShrI,
    THIS => asm::Access::ThisAddress, THISC => asm::Access::ThisContractAddress,
    REPC => asm::Access::RepeatCounter, DATA => asm::Access::PredicateData,
    DLEN => asm::Access::PredicateDataLen, DSLT => asm::Access::PredicateDataSlots,
    PEX => asm::Access::PredicateExists,
    SHA2 => asm::Crypto::Sha256, VRFYED => asm::Crypto::VerifyEd25519, RSECP => asm::Crypto::RecoverSecp256k1,
    HLT => asm::TotalControlFlow::Halt, HLTIF => asm::TotalControlFlow::HaltIf,
    JMPIF => asm::TotalControlFlow::JumpIf, PNCIF => asm::TotalControlFlow::PanicIf,
    ALOC => asm::Memory::Alloc, FREE => asm::Memory::Free, LOD => asm::Memory::Load,
    STO => asm::Memory::Store, LODR => asm::Memory::LoadRange, STOR => asm::Memory::StoreRange,
    LODP => asm::ParentMemory::Load, LODPR => asm::ParentMemory::LoadRange,
    KRNG => asm::StateRead::KeyRange, KREX => asm::StateRead::KeyRangeExtern,
    PKRNG => asm::StateRead::PostKeyRange, PKREX => asm::StateRead::PostKeyRangeExtern,
    COM => asm::Compute::Compute, COME => asm::Compute::ComputeEnd,
}

/// All operations without immediates (for op soup), plus `Push` handled by callers.
pub fn all_nullary() -> Vec<Op> {
    vec![
        POP(), DUP(), DUPF(), SWAP(), SWAPI(), SEL(), SLTR(), REP(), REPE(), RES(), LODS(), STOS(), DROP(),
        EQ(), EQRA(), GT(), LT(), GTE(), LTE(), AND(), OR(), NOT(), EQST(), BAND(), BOR(),
        ADD(), SUB(), MUL(), DIV(), MOD(), SHL(), SHR(), SHRI(),
        THIS(), THISC(), REPC(), DATA(), DLEN(), DSLT(), PEX(),
        SHA2(), VRFYED(), RSECP(),
        HLT(), HLTIF(), JMPIF(), PNCIF(),
        ALOC(), FREE(), LOD(), STO(), LODR(), STOR(), LODP(), LODPR(),
        KRNG(), KREX(), PKRNG(), PKREX(), COM(), COME(),
    ]
}

pub fn to_bytes(ops: &[Op]) -> Vec<u8> {
    asm::to_bytes(ops.iter().copied()).collect()
}

pub fn from_bytes(bytes: &[u8]) -> Result<Vec<Op>, asm::FromBytesError> {
    asm::from_bytes(bytes.iter().copied()).collect()
}

/// Human-readable listing for replay files.
pub fn disasm(bytes: &[u8]) -> Vec<String> {
    match from_bytes(bytes) {
        Ok(ops) => ops.iter().map(|o| format!("{o:?}")).collect(),
        Err(e) => vec![format!("<unparsable: {e}>")],
    }
}

// ---- fragments ------------------------------------------------------------------

/// Push the whole memory onto the stack (memory unchanged).
pub fn frag_mem_to_stack() -> Vec<Op> {
    vec![PUSH(0), ALOC(), PUSH(0), SWAP(), LODR()]
}

/// Replace the whole stack by the 4-word SHA-256 of its contents.
pub fn frag_hash_stack() -> Vec<Op> {
    vec![PUSH(0), RES(), PUSH(8), MUL(), SHA2()]
}

/// Empty the stack.
pub fn frag_clear_stack() -> Vec<Op> {
    vec![PUSH(0), RES(), DROP()]
}

/// Empty the memory.
pub fn frag_clear_mem() -> Vec<Op> {
    vec![PUSH(0), FREE()]
}

/// Append `words` to memory.
pub fn frag_mem_append(words: &[Word]) -> Vec<Op> {
    let mut v = vec![PUSH(words.len() as Word), ALOC()]; // stack: [.., old_len]
    if words.is_empty() {
        v.push(POP());
        return v;
    }
    // STOR takes [values.., len, index]; index (old_len) is below the values, so bring it up
    for w in words {
        v.push(PUSH(*w));
    }
    v.push(PUSH(words.len() as Word)); // stack: [.., old_len, w.., n]
    v.push(PUSH(words.len() as Word + 1));
    v.push(DUPF()); // copies old_len to top
    v.push(STOR()); // stack: [.., old_len]
    v.push(POP());
    v
}

/// A one-key pre-state read of `key_prefix ++ [tail]` into scratch memory that is freed
/// again: leaves stack and memory unchanged, shows up in the device log (a *beacon*).
/// `dynamic_first` true: the first key word is this solution's predicate_data[0][0].
pub fn frag_beacon(dynamic_first: bool, k0: Word, k1: Word) -> Vec<Op> {
    let mut v = vec![PUSH(2), ALOC()]; // [.., M]
    if dynamic_first {
        v.extend([PUSH(0), PUSH(0), PUSH(1), DATA()]);
    } else {
        v.push(PUSH(k0));
    }
    v.extend([PUSH(k1), PUSH(2), PUSH(1), PUSH(4), DUPF(), KRNG(), FREE()]);
    v
}
