//! Reference models written against the property statements:
//! M-overlay (post-state = pre-state overlaid with all proposed mutations),
//! M-twopass (outputs pass, overlay, checks pass) over M-graph.
//!
//! Node programs themselves are executed by the real VM on one thread (a black box):
//! C01–C04 are about graph, pass and overlay semantics, not op semantics.

use crate::events::CA;
use crate::graph::{self, Graph};
use crate::ops;
use crate::store::{next_key, Fault, SimErr, StateMap, ERR_TOO_MANY, READ_CAP};
use crate::wl::{Mat, Workload};
use essential_asm as asm;
use essential_types::{
    solution::{Mutation, Solution},
    ContentAddress, Key, Value, Word,
};
use essential_vm::{error::OpError, Access, GasLimit, StateRead, Vm};
use serde::Serialize;
use std::collections::{BTreeMap, BTreeSet};
use std::sync::Arc;

// ---------------------------------------------------------------------------------
// observables

/// What a check entry point returned, projected to the observables the properties name.
#[derive(Clone, Debug, PartialEq, Eq, Serialize)]
pub enum Verdict {
    Ok {
        gas: u64,
        /// per solution: the mutations appended by the check, in order
        computed: Vec<Vec<(Key, Value)>>,
    },
    Err {
        sols: BTreeMap<u16, SolErr>,
        /// the failing solution indices in the order the error lists them (C02 compares it)
        order: Vec<u16>,
    },
    Other(String),
}

#[derive(Clone, Debug, PartialEq, Eq, Serialize)]
pub enum SolErr {
    InvalidGraph,
    /// node index → error kind
    Program(BTreeMap<usize, String>),
    Unsatisfied(BTreeSet<usize>),
    MutDecode,
    MutDuplicate(Key),
}

/// What the model expects. `Program` errors carry the envelope used when all failures
/// are collected: `must` = root causes with kinds, `may` = their descendants (a child of a
/// failed parent runs without that input; the statement does not fix what it then does).
#[derive(Clone, Debug, PartialEq, Eq, Serialize)]
pub enum Expect {
    Ok {
        gas: u64,
        computed: Vec<Vec<(Key, Value)>>,
    },
    Err {
        sols: BTreeMap<u16, ExpectErr>,
    },
}

#[derive(Clone, Debug, PartialEq, Eq, Serialize)]
pub enum ExpectErr {
    InvalidGraph,
    Program {
        must: BTreeMap<usize, String>,
        may: BTreeSet<usize>,
    },
    Unsatisfied(BTreeSet<usize>),
    MutDecode,
    MutDuplicate(Key),
}

/// Compare an actual verdict with the expectation. `Ok(())` or a description of the first difference.
pub fn matches(exp: &Expect, act: &Verdict) -> Result<(), String> {
    match (exp, act) {
        (
            Expect::Ok { gas, computed },
            Verdict::Ok {
                gas: g2,
                computed: c2,
            },
        ) => {
            if gas != g2 {
                return Err(format!("gas: model {gas}, actual {g2}"));
            }
            if computed.len() != c2.len() {
                return Err("number of solutions differs".into());
            }
            for (i, (a, b)) in computed.iter().zip(c2).enumerate() {
                // order of computed mutations inside a solution is not fixed by C01/C03 (C02 fixes
                // it across schedules); compare as multisets
                let mut a = a.clone();
                let mut b = b.clone();
                a.sort();
                b.sort();
                if a != b {
                    return Err(format!(
                        "computed mutations of solution {i}: model {a:?}, actual {b:?}"
                    ));
                }
            }
            Ok(())
        }
        (Expect::Err { sols }, Verdict::Err { sols: s2, .. }) => {
            let ka: Vec<_> = sols.keys().collect();
            let kb: Vec<_> = s2.keys().collect();
            if ka != kb {
                return Err(format!("failing solutions: model {ka:?}, actual {kb:?}"));
            }
            for (k, e) in sols {
                let a = &s2[k];
                let ok = match (e, a) {
                    (ExpectErr::InvalidGraph, SolErr::InvalidGraph) => true,
                    (ExpectErr::Unsatisfied(x), SolErr::Unsatisfied(y)) => x == y,
                    (ExpectErr::MutDecode, SolErr::MutDecode) => true,
                    (ExpectErr::MutDuplicate(x), SolErr::MutDuplicate(y)) => x == y,
                    (ExpectErr::Program { must, may }, SolErr::Program(nodes)) => {
                        must.iter().all(|(n, k)| nodes.get(n) == Some(k))
                            && nodes
                                .keys()
                                .all(|n| must.contains_key(n) || may.contains(n))
                    }
                    _ => false,
                };
                if !ok {
                    return Err(format!("solution {k}: model {e:?}, actual {a:?}"));
                }
            }
            Ok(())
        }
        _ => Err(format!(
            "verdict kind: model {}, actual {}",
            match exp {
                Expect::Ok { .. } => "Ok",
                Expect::Err { .. } => "Err",
            },
            match act {
                Verdict::Ok { .. } => "Ok".to_string(),
                Verdict::Err { sols, .. } => format!("Err{sols:?}"),
                Verdict::Other(s) => s.clone(),
            }
        )),
    }
}

pub fn op_err_kind(e: &OpError<SimErr>) -> String {
    match e {
        OpError::Access(_) => "Access".into(),
        OpError::Alu(_) => "Alu".into(),
        OpError::Crypto(_) => "Crypto".into(),
        OpError::Stack(_) => "Stack".into(),
        OpError::Repeat(_) => "Repeat".into(),
        OpError::TotalControlFlow(_) => "TotalControlFlow".into(),
        OpError::Memory(_) => "Memory".into(),
        OpError::ParentMemory(_) => "ParentMemory".into(),
        OpError::PcOverflow => "PcOverflow".into(),
        OpError::Decode(_) => "Decode".into(),
        OpError::Encode(_) => "Encode".into(),
        OpError::StateRead(s) => format!("StateRead#{}", s.id),
        // which child's error is kept when several fail is not deterministic (rayon) and not
        // an observable any property names
        OpError::Compute(_) => "Compute".into(),
        OpError::FromBytes(_) => "FromBytes".into(),
        OpError::OutOfGas(_) => "OutOfGas".into(),
    }
}

// ---------------------------------------------------------------------------------
// M-overlay

/// A view of state for the model: `overlay` (if any) wins, else `data`, else empty.
/// A range is the successive increments of the key with carry, ending at wrap-around.
pub struct ModelView<'a> {
    pub data: &'a StateMap,
    pub overlay: Option<&'a StateMap>,
    pub bad: &'a [(CA, Key, u32)],
    /// the device leaves out keys it has no value for instead of answering with an empty
    /// value (fault `Sparse`). What the statement then implies: a range that the set does not
    /// touch at all (no proposal for that contract) is the device's answer as it is; for a
    /// contract with proposals every key of the range has a value — the proposed one, or the
    /// device's, or the empty value when the device has none.
    pub sparse: bool,
    /// the device refuses ranges that run past the last key (fault `WrapError`). A range the set
    /// does not touch is the device's business, refusal included; for a contract with proposals
    /// every key up to the last one has a value and the range simply ends there.
    pub wrap_error: Option<u32>,
}

impl StateRead for ModelView<'_> {
    type Error = SimErr;
    fn key_range(
        &self,
        contract_addr: ContentAddress,
        key: Key,
        num_values: usize,
    ) -> Result<Vec<Vec<Word>>, SimErr> {
        let c = contract_addr.0;
        let touched = self.overlay.map(|o| o.keys().any(|(oc, _)| *oc == c)).unwrap_or(false);
        // The device's own cap on one request applies where the range reaches the device as one
        // request. For a contract the set proposes values for, every key of the range has a value
        // however long the range is (the device is at most asked key by key) — up to a length
        // beyond which the model declines to have an opinion.
        if num_values > READ_CAP && !touched {
            return Err(SimErr {
                id: ERR_TOO_MANY,
                what: "too many".into(),
            });
        }
        if num_values > 64 * READ_CAP {
            UNUSABLE.with(|u| *u.borrow_mut() = Some("a post-state read of an astronomically long range".into()));
            return Err(SimErr {
                id: ERR_TOO_MANY,
                what: "too many".into(),
            });
        }
        let mut out = Vec::new();
        let mut k = key;
        // a bad key anywhere in the range fails the whole request
        {
            let mut kk = k.clone();
            for _ in 0..num_values {
                if let Some((_, _, id)) = self.bad.iter().find(|(bc, bk, _)| *bc == c && *bk == kk)
                {
                    return Err(SimErr {
                        id: *id,
                        what: "bad key".into(),
                    });
                }
                match next_key(kk) {
                    Some(n) => kk = n,
                    None => break,
                }
            }
        }
        let contract_touched = self.overlay.map(|o| o.keys().any(|(oc, _)| *oc == c)).unwrap_or(false);
        if let Some(id) = self.wrap_error {
            if !contract_touched && crate::store::range_wraps(&k, num_values) {
                return Err(SimErr {
                    id,
                    what: "range runs past the last key".into(),
                });
            }
        }
        for _ in 0..num_values {
            let v = self
                .overlay
                .and_then(|o| o.get(&(c, k.clone())))
                .or_else(|| self.data.get(&(c, k.clone())))
                .cloned()
                .unwrap_or_default();
            out.push(v);
            match next_key(k) {
                Some(n) => k = n,
                None => break,
            }
        }
        if self.sparse && !contract_touched {
            out.retain(|v| !v.is_empty());
        }
        Ok(out)
    }
}

// ---------------------------------------------------------------------------------
// M-twopass

#[derive(Clone, Debug)]
pub struct NodeOut {
    pub stack: Vec<Word>,
    pub memory: Vec<Word>,
    pub gas: u64,
}

/// Per-solution facts the history checks need.
#[derive(Clone, Debug, Default)]
pub struct SolTrace {
    pub graph: Option<Graph>,
    pub deferred: BTreeSet<usize>,
    /// nodes evaluated by the model, with the input they were given
    pub inputs: BTreeMap<usize, (Vec<Word>, Vec<Word>)>,
    pub outputs: BTreeMap<usize, NodeOut>,
    /// data-output leaves of pass 1 and their ancestors
    pub mutation_relevant: BTreeSet<usize>,
    /// pass in which the solution failed, if any
    pub failed_in_pass: Option<u8>,
}

pub struct ModelOut {
    /// a node program overran the op/item budget or panicked inside the VM: no expectation
    pub unusable: Option<String>,
    pub expect: Expect,
    pub sols: Vec<SolTrace>,
    /// the overlay (contract,key)->value the second pass read through
    pub overlay: StateMap,
}

fn run_node(
    ops: &[asm::Op],
    parents: &[&NodeOut],
    solutions: &Arc<Vec<Solution>>,
    idx: usize,
    pre: &ModelView,
    post: &ModelView,
) -> Result<NodeOut, String> {
    let mut stack: Vec<Word> = Vec::new();
    let mut memory: Vec<Word> = Vec::new();
    for p in parents {
        stack.extend_from_slice(&p.stack);
        if stack.len() > crate::hooks::STACK_LIMIT {
            return Err("ParentConcat".into());
        }
        memory.extend_from_slice(&p.memory);
        if memory.len() > crate::hooks::MEMORY_LIMIT {
            return Err("ParentConcat".into());
        }
    }
    let mut vm = Vm::default();
    vm.stack = stack.try_into().map_err(|_| "ParentConcat".to_string())?;
    vm.memory = memory.try_into().map_err(|_| "ParentConcat".to_string())?;
    let access = Access::new(solutions.clone(), idx as u16);
    let cost = |_: &asm::Op| 1u64;
    struct Both<'a, 'b>(&'a ModelView<'b>, &'a ModelView<'b>);
    impl<'a, 'b> essential_vm::StateReads for Both<'a, 'b> {
        type Error = SimErr;
        type Pre = ModelView<'b>;
        type Post = ModelView<'b>;
        fn pre(&self) -> &Self::Pre {
            self.0
        }
        fn post(&self) -> &Self::Post {
            self.1
        }
    }
    let st = Both(pre, post);
    let res = match crate::runner::catch(|| vm.exec_ops(ops, access, &st, &cost, GasLimit::UNLIMITED)) {
        Ok(r) => r,
        Err(p) => {
            // the model only hosts the VM as a black box: a budget overrun or a panic inside it
            // makes the case unusable for model comparison
            let why = if p.message.contains("budget") {
                "BUDGET".to_string()
            } else {
                format!("PANIC:{}", p.message)
            };
            UNUSABLE.with(|u| *u.borrow_mut() = Some(why.clone()));
            return Err(why);
        }
    };
    match res {
        Ok(gas) => Ok(NodeOut {
            stack: vm.stack.to_vec(),
            memory: vm.memory.to_vec(),
            gas,
        }),
        Err(e) => Err(format!("Vm@{}:{}", e.0, op_err_kind(&e.1))),
    }
}

fn has_post_read(ops: &[asm::Op]) -> bool {
    ops.iter().any(|o| {
        matches!(
            o,
            asm::Op::StateRead(asm::StateRead::PostKeyRange)
                | asm::Op::StateRead(asm::StateRead::PostKeyRangeExtern)
        )
    })
}

enum PassResult {
    Ok {
        gas: u64,
        /// data-output memories in (level, index) order
        data: Vec<Vec<Word>>,
    },
    Err(ExpectErr),
}

#[allow(clippy::too_many_arguments)]
fn eval_pass(
    g: &Graph,
    progs: &[Option<Vec<asm::Op>>],
    nodes: &BTreeSet<usize>,
    tr: &mut SolTrace,
    solutions: &Arc<Vec<Solution>>,
    idx: usize,
    pre: &ModelView,
    post: &ModelView,
    collect_all: bool,
) -> PassResult {
    let mut gas: u64 = 0;
    let mut data = Vec::new();
    let mut unsat = BTreeSet::new();
    let mut must: BTreeMap<usize, String> = BTreeMap::new();
    let mut failed_or_tainted: BTreeSet<usize> = BTreeSet::new();
    let order: Vec<usize> = g.topo().into_iter().filter(|n| nodes.contains(n)).collect();
    let mut cur_level = usize::MAX;
    for n in order {
        if g.level[n] != cur_level {
            // a new level: with fail-fast, stop once an earlier level had a failure
            if !collect_all && !must.is_empty() {
                break;
            }
            cur_level = g.level[n];
        }
        if g.parents[n]
            .iter()
            .any(|p| failed_or_tainted.contains(&(*p as usize)))
        {
            failed_or_tainted.insert(n);
            continue;
        }
        let parents: Vec<&NodeOut> = g.parents[n]
            .iter()
            .map(|p| {
                tr.outputs
                    .get(&(*p as usize))
                    .expect("model: parent evaluated before child")
            })
            .collect();
        let mut in_stack = Vec::new();
        let mut in_mem = Vec::new();
        for p in &parents {
            in_stack.extend_from_slice(&p.stack);
            in_mem.extend_from_slice(&p.memory);
        }
        tr.inputs.insert(n, (in_stack, in_mem));
        let res = match &progs[n] {
            None => Err("FromBytes".to_string()),
            Some(ops) => run_node(ops, &parents, solutions, idx, pre, post),
        };
        match res {
            Ok(out) => {
                gas = gas.saturating_add(out.gas);
                if g.is_leaf(n) {
                    if out.stack == [2] {
                        data.push(out.memory.clone());
                    } else if out.stack != [1] {
                        unsat.insert(n);
                    }
                }
                tr.outputs.insert(n, out);
            }
            Err(kind) => {
                must.insert(n, kind);
                failed_or_tainted.insert(n);
            }
        }
    }
    if !must.is_empty() {
        if !collect_all {
            // only the lowest-index failure of the first failing level is reported
            let first = *must.keys().next().unwrap();
            let kind = must[&first].clone();
            return PassResult::Err(ExpectErr::Program {
                must: [(first, kind)].into_iter().collect(),
                may: BTreeSet::new(),
            });
        }
        let seeds: BTreeSet<usize> = must.keys().copied().collect();
        let mut may = g.descendants_closure(&seeds);
        for s in &seeds {
            may.remove(s);
        }
        return PassResult::Err(ExpectErr::Program { must, may });
    }
    if !unsat.is_empty() {
        return PassResult::Err(ExpectErr::Unsatisfied(unsat));
    }
    PassResult::Ok { gas, data }
}

/// Decode one data-output memory the way the wire format is documented:
/// `[n, (key_len, key.., value_len, value..)*]`.
fn decode_mutations_model(mem: &[Word]) -> Result<Vec<(Key, Value)>, ()> {
    let n = *mem.first().ok_or(())?;
    if n < 0 {
        return Err(());
    }
    let mut out = Vec::new();
    if n == 0 {
        return Ok(out);
    }
    let mut i = 1usize;
    // the implementation reads mutations until the words are used up (the count is only a hint)
    while i < mem.len() {
        let kl = mem[i];
        if kl < 0 {
            return Err(());
        }
        let kl = kl as usize;
        let ks = i + 1;
        let ke = ks.checked_add(kl).ok_or(())?;
        if ke >= mem.len() {
            return Err(());
        }
        let vl = mem[ke];
        if vl < 0 {
            return Err(());
        }
        let vs = ke + 1;
        let ve = vs.checked_add(vl as usize).ok_or(())?;
        if ve > mem.len() {
            return Err(());
        }
        out.push((mem[ks..ke].to_vec(), mem[vs..ve].to_vec()));
        i = ve;
    }
    Ok(out)
}

pub fn bad_keys(faults: &[Fault]) -> Vec<(CA, Key, u32)> {
    faults
        .iter()
        .filter_map(|f| match f {
            Fault::BadKey {
                contract, key, id, ..
            } => Some((*contract, key.clone(), *id)),
            _ => None,
        })
        .collect()
}

thread_local! {
    static UNUSABLE: std::cell::RefCell<Option<String>> = const { std::cell::RefCell::new(None) };
}

/// M-twopass.
pub fn two_pass(w: &Workload, m: &Mat) -> ModelOut {
    UNUSABLE.with(|u| *u.borrow_mut() = None);
    let mut out = two_pass_inner(w, m);
    out.unusable = UNUSABLE.with(|u| u.borrow_mut().take());
    out
}

fn two_pass_inner(w: &Workload, m: &Mat) -> ModelOut {
    let data = w.state_map();
    let bad = bad_keys(&w.faults);
    let sparse = w.faults.iter().any(|f| matches!(f, Fault::Sparse));
    let wrap_error = w.faults.iter().find_map(|f| match f {
        Fault::WrapError { id } => Some(*id),
        _ => None,
    });
    let empty = StateMap::new();
    let pre = ModelView {
        data: &data,
        overlay: None,
        bad: &bad,
        sparse,
        wrap_error,
    };
    let parsed: Vec<Option<Vec<asm::Op>>> =
        w.programs.iter().map(|b| ops::from_bytes(b).ok()).collect();

    let n_sols = w.sols.len();
    let mut traces: Vec<SolTrace> = (0..n_sols).map(|_| SolTrace::default()).collect();
    let mut solutions: Vec<Solution> = m.set.solutions.clone();

    // graphs and deferred sets
    let mut node_progs: Vec<Vec<Option<Vec<asm::Op>>>> = Vec::new();
    for (si, s) in w.sols.iter().enumerate() {
        let p = &w.preds[s.pred];
        let starts: Vec<u16> = p.nodes.iter().map(|n| n.0).collect();
        let progs: Vec<Option<Vec<asm::Op>>> =
            p.nodes.iter().map(|n| parsed[n.1].clone()).collect();
        if let Ok(g) = graph::decode(&starts, &p.edges) {
            let seeds: BTreeSet<usize> = (0..g.n)
                .filter(|&i| progs[i].as_ref().map(|o| has_post_read(o)).unwrap_or(false))
                .collect();
            traces[si].deferred = g.descendants_closure(&seeds);
            traces[si].graph = Some(g);
        }
        node_progs.push(progs);
    }

    // ---- pass 1 (outputs)
    let mut gas_total: u64 = 0;
    let mut errs: BTreeMap<u16, ExpectErr> = BTreeMap::new();
    let mut pass1_data: Vec<Vec<Vec<Word>>> = vec![Vec::new(); n_sols];
    {
        let sols_arc = Arc::new(solutions.clone());
        let post_empty = ModelView {
            data: &data,
            overlay: Some(&empty),
            bad: &bad,
            sparse,
            wrap_error,
        };
        for si in 0..n_sols {
            let Some(g) = traces[si].graph.clone() else {
                errs.insert(si as u16, ExpectErr::InvalidGraph);
                traces[si].failed_in_pass = Some(1);
                continue;
            };
            let nodes: BTreeSet<usize> = (0..g.n)
                .filter(|n| !traces[si].deferred.contains(n))
                .collect();
            match eval_pass(
                &g,
                &node_progs[si],
                &nodes,
                &mut traces[si],
                &sols_arc,
                si,
                &pre,
                &post_empty,
                w.collect_all,
            ) {
                PassResult::Ok { gas, data } => {
                    gas_total = gas_total.saturating_add(gas);
                    pass1_data[si] = data;
                    // which nodes can contribute to a first-pass mutation
                    let leaves: BTreeSet<usize> = nodes
                        .iter()
                        .copied()
                        .filter(|&n| {
                            g.is_leaf(n)
                                && traces[si]
                                    .outputs
                                    .get(&n)
                                    .map(|o| o.stack == [2])
                                    .unwrap_or(false)
                        })
                        .collect();
                    traces[si].mutation_relevant = g.ancestors_closure(&leaves);
                }
                PassResult::Err(e) => {
                    errs.insert(si as u16, e);
                    traces[si].failed_in_pass = Some(1);
                }
            }
        }
    }
    if !errs.is_empty() {
        return ModelOut {
            unusable: None,
            expect: Expect::Err { sols: errs },
            sols: traces,
            overlay: StateMap::new(),
        };
    }
    // decode first-pass data outputs into computed mutations
    let mut computed: Vec<Vec<(Key, Value)>> = vec![Vec::new(); n_sols];
    for si in 0..n_sols {
        if let Some(e) = apply_outputs(&pass1_data[si], &mut computed[si], &mut solutions[si]) {
            traces[si].failed_in_pass = Some(1);
            return ModelOut {
            unusable: None,
                expect: Expect::Err {
                    sols: [(si as u16, e)].into_iter().collect(),
                },
                sols: traces,
                overlay: StateMap::new(),
            };
        }
    }
    // ---- overlay: every proposed mutation, declared or computed
    let mut overlay = StateMap::new();
    for s in &solutions {
        for mu in &s.state_mutations {
            overlay.insert(
                (s.predicate_to_solve.contract.0, mu.key.clone()),
                mu.value.clone(),
            );
        }
    }
    // ---- pass 2 (checks)
    let mut pass2_data: Vec<Vec<Vec<Word>>> = vec![Vec::new(); n_sols];
    {
        let sols_arc = Arc::new(solutions.clone());
        let post = ModelView {
            data: &data,
            overlay: Some(&overlay),
            bad: &bad,
            sparse,
            wrap_error,
        };
        for si in 0..n_sols {
            let g = traces[si].graph.clone().expect("valid in pass 1");
            let nodes: BTreeSet<usize> = traces[si].deferred.clone();
            match eval_pass(
                &g,
                &node_progs[si],
                &nodes,
                &mut traces[si],
                &sols_arc,
                si,
                &pre,
                &post,
                w.collect_all,
            ) {
                PassResult::Ok { gas, data } => {
                    gas_total = gas_total.saturating_add(gas);
                    pass2_data[si] = data;
                }
                PassResult::Err(e) => {
                    errs.insert(si as u16, e);
                    traces[si].failed_in_pass = Some(2);
                }
            }
        }
    }
    if !errs.is_empty() {
        return ModelOut {
            unusable: None,
            expect: Expect::Err { sols: errs },
            sols: traces,
            overlay,
        };
    }
    if w.entry == crate::wl::Entry::RawOutputs {
        // the observable is the raw outputs of both passes, per solution, in order
        let raw: Vec<Vec<(Key, Value)>> = (0..n_sols)
            .map(|si| {
                pass1_data[si]
                    .iter()
                    .chain(pass2_data[si].iter())
                    .map(|m| (vec![], m.clone()))
                    .collect()
            })
            .collect();
        return ModelOut {
            unusable: None,
            expect: Expect::Ok {
                gas: gas_total,
                computed: raw,
            },
            sols: traces,
            overlay,
        };
    }
    for si in 0..n_sols {
        if let Some(e) = apply_outputs(&pass2_data[si], &mut computed[si], &mut solutions[si]) {
            traces[si].failed_in_pass = Some(2);
            return ModelOut {
            unusable: None,
                expect: Expect::Err {
                    sols: [(si as u16, e)].into_iter().collect(),
                },
                sols: traces,
                overlay,
            };
        }
    }
    ModelOut {
        unusable: None,
        expect: Expect::Ok {
            gas: gas_total,
            computed,
        },
        sols: traces,
        overlay,
    }
}

fn apply_outputs(
    data: &[Vec<Word>],
    computed: &mut Vec<(Key, Value)>,
    sol: &mut Solution,
) -> Option<ExpectErr> {
    let mut seen: BTreeSet<Key> = BTreeSet::new();
    for mem in data {
        let Ok(ms) = decode_mutations_model(mem) else {
            return Some(ExpectErr::MutDecode);
        };
        for (k, v) in ms {
            if !seen.insert(k.clone()) {
                return Some(ExpectErr::MutDuplicate(k));
            }
            computed.push((k.clone(), v.clone()));
            sol.state_mutations.push(Mutation { key: k, value: v });
        }
    }
    None
}
