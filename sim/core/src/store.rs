//! Simulated stores: the state device (seam S1) with fault injection, and the
//! program / predicate stores (seam S2). All of them log to `events` and are
//! scheduling points.

use crate::events::{self, Ev, View, CA};
use essential_check::solution::{GetPredicate, GetProgram};
use essential_types::{
    predicate::{Predicate, Program},
    ContentAddress, Key, PredicateAddress, Value, Word,
};
use essential_vm::StateRead;
use serde::{Deserialize, Serialize};
use std::cell::Cell;
use std::collections::{BTreeMap, HashMap};
use std::sync::Arc;

/// Largest count a single honest device request may ask for.
pub const READ_CAP: usize = 1 << 15;

#[derive(Clone, Debug, PartialEq, Eq, Serialize, Deserialize)]
pub struct SimErr {
    pub id: u32,
    pub what: String,
}
impl std::fmt::Display for SimErr {
    fn fmt(&self, f: &mut std::fmt::Formatter<'_>) -> std::fmt::Result {
        write!(f, "simerr#{}({})", self.id, self.what)
    }
}
impl std::error::Error for SimErr {}

pub const ERR_TOO_MANY: u32 = 0xFFFF_0001;
pub const ERR_BUDGET: u32 = 0xFFFF_0002;

#[derive(Clone, Debug, PartialEq, Eq, Serialize, Deserialize)]
pub enum Shape {
    /// replace every returned value by an empty one
    AllEmpty,
    /// one value of this many words (e.g. Memory::SIZE_LIMIT ± 1)
    Huge(usize),
    /// this many single-word values regardless of the request
    Many(usize),
}

#[derive(Clone, Debug, PartialEq, Eq, Serialize, Deserialize)]
pub enum Fault {
    /// F1: every request (through `view`, or any view if None) whose range touches
    /// (contract, key) fails with error `id`. Content-keyed, schedule-independent.
    BadKey {
        view: Option<View>,
        contract: CA,
        key: Key,
        id: u32,
    },
    /// F2: the n-th device request of the execution (arrival order) fails once.
    Transient { nth: u64, id: u32 },
    /// F3: requests starting at (contract,key) return `drop` fewer values than they should.
    Short { contract: CA, key: Key, drop: usize },
    /// F4: … return `extra` more values.
    Long { contract: CA, key: Key, extra: usize },
    /// F5: … return a hostile shape.
    Hostile { contract: CA, key: Key, shape: Shape },
    /// F3 (device-wide): the device leaves out keys it has no value for instead of answering
    /// with an empty value (some stores do): every answer may be shorter than requested.
    Sparse,
    /// F1 (device-wide, content-keyed): the device refuses any request whose range runs past
    /// the last key of the key space (some stores do, instead of answering short).
    WrapError { id: u32 },
}

#[derive(Default, Debug, Clone, Copy)]
pub struct FaultCounts {
    pub bad_key: u64,
    pub transient: u64,
    pub short: u64,
    pub long: u64,
    pub hostile: u64,
    pub too_many: u64,
    pub budget: u64,
}

thread_local! {
    static FIRED: Cell<FaultCounts> = const { Cell::new(FaultCounts { bad_key: 0, transient: 0, short: 0, long: 0, hostile: 0, too_many: 0, budget: 0 }) };
    static ARRIVALS: Cell<u64> = const { Cell::new(0) };
    static CALL_BUDGET: Cell<u64> = const { Cell::new(u64::MAX) };
}

pub fn reset_faults(call_budget: u64) {
    FIRED.with(|c| c.set(FaultCounts::default()));
    ARRIVALS.with(|c| c.set(0));
    CALL_BUDGET.with(|c| c.set(call_budget));
}
/// Snapshot / restore of the per-execution device counters (around a muted prelude).
pub fn save_counters() -> (FaultCounts, u64, u64) {
    (FIRED.with(|c| c.get()), ARRIVALS.with(|c| c.get()), CALL_BUDGET.with(|c| c.get()))
}
pub fn restore_counters(s: (FaultCounts, u64, u64)) {
    FIRED.with(|c| c.set(s.0));
    ARRIVALS.with(|c| c.set(s.1));
    CALL_BUDGET.with(|c| c.set(s.2));
}
pub fn fired() -> FaultCounts {
    FIRED.with(|c| c.get())
}
fn bump(f: impl FnOnce(&mut FaultCounts)) {
    FIRED.with(|c| {
        let mut v = c.get();
        f(&mut v);
        c.set(v)
    })
}

/// Lexicographic successor of a key (carry from the last word); None on wrap-around
/// (and for the empty key).
pub fn next_key(mut key: Key) -> Option<Key> {
    for w in key.iter_mut().rev() {
        if *w == Word::MAX {
            *w = Word::MIN;
        } else {
            *w += 1;
            return Some(key);
        }
    }
    None
}

/// Does the range of `n` keys starting at `key` run past the last key of that length?
pub fn range_wraps(key: &Key, n: usize) -> bool {
    let mut k = key.clone();
    for i in 0..n {
        match next_key(k) {
            Some(nk) => k = nk,
            None => return i + 1 < n,
        }
        if i > 64 {
            // a carry can only travel through trailing MAX words: far from the end after this
            return false;
        }
    }
    false
}

pub type StateMap = BTreeMap<(CA, Key), Value>;

pub struct DeviceInner {
    pub data: StateMap,
    pub faults: Vec<Fault>,
}

/// The simulated state device.
#[derive(Clone)]
pub struct SimState {
    pub inner: Arc<DeviceInner>,
    pub view: View,
    /// When set, this handle serves the *post* view itself (harness-driven two-mode entry):
    /// values present in the overlay win, everything else falls through to `data`.
    pub overlay: Option<Arc<StateMap>>,
}

impl SimState {
    pub fn new(data: StateMap, faults: Vec<Fault>) -> Self {
        SimState {
            inner: Arc::new(DeviceInner { data, faults }),
            view: View::Pre,
            overlay: None,
        }
    }
    pub fn post_view(&self, overlay: StateMap) -> Self {
        SimState {
            inner: self.inner.clone(),
            view: View::Post,
            overlay: Some(Arc::new(overlay)),
        }
    }
    fn lookup(&self, c: &CA, k: &Key) -> Value {
        if let Some(o) = &self.overlay {
            if let Some(v) = o.get(&(*c, k.clone())) {
                return v.clone();
            }
        }
        self.inner
            .data
            .get(&(*c, k.clone()))
            .cloned()
            .unwrap_or_default()
    }

    /// The honest answer to a request (no faults): successive keys, stopping at wrap-around.
    pub fn honest(&self, c: &CA, key: &Key, n: usize) -> Vec<Value> {
        let mut out = Vec::new();
        let mut k = key.clone();
        for _ in 0..n {
            out.push(self.lookup(c, &k));
            match next_key(k) {
                Some(nk) => k = nk,
                None => break,
            }
        }
        out
    }

    fn answer(&self, c: &CA, key: &Key, n: usize) -> Result<Vec<Value>, SimErr> {
        let arrival = ARRIVALS.with(|a| {
            let v = a.get();
            a.set(v + 1);
            v
        });
        let budget_left = CALL_BUDGET.with(|b| {
            let v = b.get();
            if v > 0 && v != u64::MAX {
                b.set(v - 1);
            }
            v
        });
        if budget_left == 0 {
            bump(|f| f.budget += 1);
            return Err(SimErr {
                id: ERR_BUDGET,
                what: "device call budget exhausted".into(),
            });
        }
        for f in &self.inner.faults {
            if let Fault::Transient { nth, id } = f {
                if *nth == arrival {
                    bump(|f| f.transient += 1);
                    return Err(SimErr {
                        id: *id,
                        what: "transient".into(),
                    });
                }
            }
        }
        if n > READ_CAP {
            bump(|f| f.too_many += 1);
            return Err(SimErr {
                id: ERR_TOO_MANY,
                what: format!("request for {n} values"),
            });
        }
        // F1 (device-wide): a range that runs past the last key is refused
        for f in &self.inner.faults {
            if let Fault::WrapError { id } = f {
                if range_wraps(key, n) {
                    bump(|f| f.bad_key += 1);
                    return Err(SimErr {
                        id: *id,
                        what: "range runs past the last key".into(),
                    });
                }
            }
        }
        // F1: walk the requested range
        let bad: Vec<(&Option<View>, &CA, &Key, u32)> = self
            .inner
            .faults
            .iter()
            .filter_map(|f| match f {
                Fault::BadKey {
                    view,
                    contract,
                    key,
                    id,
                } => Some((view, contract, key, *id)),
                _ => None,
            })
            .collect();
        if !bad.is_empty() {
            let mut k = key.clone();
            for _ in 0..n {
                for (v, bc, bk, id) in &bad {
                    if *bc == c && **bk == k && v.map(|v| v == self.view).unwrap_or(true) {
                        bump(|f| f.bad_key += 1);
                        return Err(SimErr {
                            id: *id,
                            what: "bad key".into(),
                        });
                    }
                }
                match next_key(k) {
                    Some(nk) => k = nk,
                    None => break,
                }
            }
        }
        let mut out = self.honest(c, key, n);
        for f in &self.inner.faults {
            match f {
                Fault::Sparse => {
                    let before = out.len();
                    out.retain(|v| !v.is_empty());
                    if out.len() != before {
                        bump(|f| f.short += 1);
                    }
                }
                Fault::Short {
                    contract,
                    key: fk,
                    drop,
                } if contract == c && fk == key => {
                    bump(|f| f.short += 1);
                    let keep = out.len().saturating_sub(*drop);
                    out.truncate(keep);
                }
                Fault::Long {
                    contract,
                    key: fk,
                    extra,
                } if contract == c && fk == key => {
                    bump(|f| f.long += 1);
                    for i in 0..*extra {
                        out.push(vec![0x7EAD_0000 + i as Word]);
                    }
                }
                Fault::Hostile {
                    contract,
                    key: fk,
                    shape,
                } if contract == c && fk == key => {
                    bump(|f| f.hostile += 1);
                    out = match shape {
                        Shape::AllEmpty => out.iter().map(|_| vec![]).collect(),
                        Shape::Huge(n) => vec![vec![1; *n]],
                        Shape::Many(n) => (0..*n).map(|i| vec![i as Word]).collect(),
                    };
                }
                _ => {}
            }
        }
        Ok(out)
    }
}

impl StateRead for SimState {
    type Error = SimErr;
    fn key_range(
        &self,
        contract_addr: ContentAddress,
        key: Key,
        num_values: usize,
    ) -> Result<Vec<Vec<Word>>, SimErr> {
        // F6: the call is "in flight" — other tasks may run before and after it is served
        rayon::sim::switch_point();
        let r = self.answer(&contract_addr.0, &key, num_values);
        events::push(Ev::Read {
            view: self.view,
            contract: contract_addr.0,
            key,
            n: num_values,
            err: r.as_ref().err().map(|e| e.id),
            values: r.as_ref().map(|v| v.len()).unwrap_or(0),
            data: if events::keeping() { r.as_ref().ok().cloned() } else { None },
        });
        rayon::sim::switch_point();
        r
    }
}

/// S2: program store.
#[derive(Clone)]
pub struct SimPrograms(pub Arc<HashMap<ContentAddress, Arc<Program>>>, pub Option<Arc<FlakyProgram>>);

/// A store that does not answer consistently: every second lookup of `addr` returns `alt`
/// (a store that was updated in between, a cache that serves a stale entry).
pub struct FlakyProgram {
    pub addr: ContentAddress,
    pub alt: Arc<Program>,
    pub lookups: std::sync::atomic::AtomicU64,
}

impl GetProgram for SimPrograms {
    fn get_program(&self, ca: &ContentAddress) -> Arc<Program> {
        rayon::sim::switch_point();
        events::push(Ev::Fetch { program: ca.0 });
        if let Some(f) = &self.1 {
            if f.addr == *ca && f.lookups.fetch_add(1, std::sync::atomic::Ordering::Relaxed) % 2 == 1 {
                return f.alt.clone();
            }
        }
        self.0
            .get(ca)
            .cloned()
            .expect("harness: program address not in the simulated store")
    }
}

/// S2: predicate store.
#[derive(Clone)]
pub struct SimPredicates(pub Arc<HashMap<PredicateAddress, Arc<Predicate>>>);
impl GetPredicate for SimPredicates {
    fn get_predicate(&self, addr: &PredicateAddress) -> Arc<Predicate> {
        rayon::sim::switch_point();
        events::push(Ev::GetPredicate {
            predicate: addr.predicate.0,
        });
        self.0
            .get(addr)
            .cloned()
            .expect("harness: predicate address not in the simulated store")
    }
}
