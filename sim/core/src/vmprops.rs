//! VM-level properties C05, C07, C10, C11: generators, scenarios, oracles.

use crate::driver::{BatchPlan, CaseOut, KnownFinding, PropText};
use crate::events::{Ev, View};
use crate::oracle::{finding, ExecInfo, Finding};
use crate::ops::*;
use crate::props::random_spec;
use crate::rng::{derive, label, Rng};
use crate::runner::{SchedKind, SchedSpec};
use crate::store::{Fault, Shape};
use crate::vmsim::*;
use essential_types::{convert::word_4_from_u8_32, Key, Value, Word};
use serde::{Deserialize, Serialize};
use serde_json::{json, Value as Json};
use std::collections::BTreeMap;
use std::sync::Arc;

#[derive(Clone, Debug, Serialize, Deserialize, PartialEq)]
pub enum VmScenario {
    /// C10: M-exec against the real VM under `spec`, unlimited gas
    ForkJoin { case: VmCase, spec: SchedSpec, frames: bool },
    /// C07: audit + limit sweep
    Gas {
        case: VmCase,
        spec: SchedSpec,
        limits: Vec<u64>,
    },
    /// C11: one state-read op on prepared operands; `then_as`: the same VM then executes the
    /// program again on behalf of another solution (other contract)
    Read {
        case: VmCase,
        spec: SchedSpec,
        #[serde(default)]
        then_as: Option<usize>,
    },
    /// C02 at VM level: `Vm::exec` under `specs` against the sequential schedule
    /// `limit_frac`: compare under a finite total gas limit of `num/den` of what the
    /// sequential run spends without a limit (children then compete for the same budget)
    Determinism {
        case: VmCase,
        specs: Vec<SchedSpec>,
        #[serde(default)]
        limit_frac: Option<(u64, u64)>,
    },
    /// C05: totality and bounds; `calls` = number of consecutive exec calls on the same VM
    Total {
        case: VmCase,
        spec: SchedSpec,
        calls: usize,
    },
}

#[derive(Default)]
pub struct VmEval {
    pub finding: Option<Finding>,
    pub infos: Vec<ExecInfo>,
    pub notes: BTreeMap<&'static str, u64>,
    /// hash of the observable outcome (cross-build comparison)
    pub outcome_hash: u64,
}

impl VmEval {
    fn note(&mut self, k: &'static str) {
        *self.notes.entry(k).or_default() += 1;
    }
}

fn base_case(rng: &mut Rng) -> VmCase {
    let mut contract = [0u8; 32];
    for ch in contract.chunks_mut(8) {
        ch.copy_from_slice(&rng.next_u64().to_be_bytes());
    }
    VmCase {
        program: vec![],
        init_stack: vec![],
        init_memory: vec![],
        solutions: vec![vec![vec![7, 8, 9], vec![], vec![1]]],
        index: 0,
        contract,
        pre: vec![],
        post: vec![],
        faults: vec![],
        cost: CostSpec::Const(1),
        limit_total: u64::MAX,
        per_yield: 4096,
        container: Container::Slice,
        shape: String::new(),
        on_worker: rng.chance(1, 2),
    }
}

fn random_container(rng: &mut Rng) -> Container {
    match rng.below(5) {
        0 => Container::MappedOwned,
        1 => Container::MappedBorrowed,
        2 => Container::Lazy { fail_at: None },
        _ => Container::Slice,
    }
}

// ---------------------------------------------------------------------------------
// C10 generator

/// A child body: ops executed by every compute child, written against the child's stack
/// `parent ++ [i]`.
fn child_body(rng: &mut Rng, breadth: Word, tag: &mut String) -> Vec<Op> {
    let mut v = Vec::new();
    let n_parts = 1 + rng.usize(3);
    for _ in 0..n_parts {
        match rng.below(20) {
            13 => {
                // finish the innermost inherited loop frame, then look at the enclosing one
                tag.push_str("end-inherited-loop,");
                v.extend([REPE(), PUSH(1), ALOC(), POP(), REPC(), PUSH(0), ALOC(), PUSH(1), SUB(), STO()]);
            }
            0 | 1 => {
                // memory = [i]
                tag.push_str("store-index,");
                v.extend([PUSH(1), ALOC(), POP()]);
                // index word is on top: store it at the last cell
                v.extend([DUP(), PUSH(0), ALOC(), PUSH(1), SUB(), STO()]);
            }
            2 => {
                // allocate i words (index-dependent size)
                tag.push_str("alloc-i,");
                v.extend([DUP(), ALOC(), POP()]);
            }
            3 => {
                // allocate a large block: combined memory may exceed the limit
                tag.push_str("alloc-big,");
                let sz = *rng.pick(&[100, 1000, 2560, 5120, 10240]);
                v.extend([PUSH(sz), ALOC(), POP()]);
            }
            4 => {
                // read parent memory at i (in or out of range)
                tag.push_str("parent-load,");
                v.extend([DUP(), LODP(), POP()]);
            }
            5 => {
                // child k halts
                tag.push_str("halt-k,");
                let k = rng.range(0, breadth.clamp(1, 8) - 1);
                v.extend([DUP(), PUSH(k), EQ(), HLTIF()]);
            }
            6 => {
                // children k.. fail
                tag.push_str("panic-ge-k,");
                let k = rng.range(0, breadth.clamp(1, 8));
                v.extend([DUP(), PUSH(k), GTE(), PNCIF()]);
            }
            7 => {
                // index-dependent early end: children with i < k stop at an inner ComputeEnd
                tag.push_str("early-end,");
                let k = rng.range(0, breadth.clamp(1, 8));
                // if i >= k jump over the inner ComputeEnd
                v.extend([PUSH(2), DUP(), POP(), PUSH(1), DUPF(), PUSH(k), GTE(), JMPIF(), COME()]);
            }
            8 => {
                // nested compute: must fail the parent
                tag.push_str("nested,");
                v.extend([PUSH(2), COM(), COME()]);
            }
            9 => {
                // state read with an index-dependent key into own memory
                tag.push_str("state-read,");
                v.extend([PUSH(4), ALOC()]); // [.., i, A]
                v.extend([PUSH(1), DUPF(), PUSH(50), SWAP(), PUSH(2), PUSH(1), PUSH(4), DUPF(), KRNG(), POP()]);
            }
            14 => {
                // copy the first words of the parent's memory into own memory: what a child
                // sees of the parent becomes part of the joined result
                tag.push_str("parent-copy,");
                v.extend([PUSH(2), ALOC(), POP(), PUSH(0), PUSH(2), LODPR(), PUSH(2), PUSH(0), ALOC(), PUSH(2), SUB(), STOR()]);
            }
            15 => {
                // children with an odd index write one word, the others stay silent
                tag.push_str("odd-writes,");
                v.extend([PUSH(6), PUSH(1), DUPF(), PUSH(2), MOD(), NOT(), JMPIF(), PUSH(1), ALOC(), POP(), PUSH(0), POP()]);
            }
            16 | 17 => {
                tag.push_str("silent,");
                v.extend([POP(), PUSH(0)]);
            }
            18 | 19 => {
                // record the word just below the index (the parent's top word) in own memory and
                // leave the index in its place: every child must find the parent's word there
                tag.push_str("swap-store,");
                v.extend([PUSH(1), ALOC(), POP(), SWAP(), PUSH(0), ALOC(), PUSH(1), SUB(), STO()]);
            }
            10 => {
                tag.push_str("pex,");
                v.extend([PUSH(1), PUSH(2), PUSH(3), PUSH(4), PEX(), POP()]);
            }
            11 => {
                // repeat counter of an enclosing loop (cloned repeat state)
                tag.push_str("repc,");
                v.extend([PUSH(1), ALOC(), POP(), REPC(), PUSH(0), ALOC(), PUSH(1), SUB(), STO()]);
            }
            12 => {
                // even children leave from inside a loop of their own (a stale frame for whoever
                // reuses the VM); the others record the enclosing loop's counter
                tag.push_str("own-loop-exit,");
                v.extend([PUSH(12), PUSH(1), DUPF(), PUSH(2), MOD(), JMPIF()]);
                v.extend([PUSH(1), ALOC(), POP(), PUSH(7), PUSH(0), REP(), PUSH(1), HLTIF(), REPE(), PUSH(0), POP()]);
                v.extend([PUSH(1), ALOC(), POP(), REPC(), PUSH(0), ALOC(), PUSH(1), SUB(), STO()]);
            }
            _ => {
                tag.push_str("soup,");
                let n = 1 + rng.usize(6);
                let mut s = crate::gen::soup(rng, n);
                s.retain(|o| *o != REP());
                v.extend(s);
            }
        }
    }
    v
}

pub fn gen_forkjoin(rng: &mut Rng, light: bool) -> VmCase {
    let mut c = base_case(rng);
    let mut tag = String::new();
    let breadth: Word = match rng.below(20) {
        0 => 0,
        1 => -1,
        2 => 1,
        3 if !light => 2000 + rng.range(0, 3000),
        // just past a few hundred: implementations that work through the children in blocks
        // have their block boundaries here
        5 => *rng.pick(&[255, 256, 257, 300, 511, 513, 1025]),
        4 => Word::MIN,
        _ => 2 + rng.range(0, if light { 10 } else { 62 }),
    };
    let in_loop = rng.chance(1, 3);
    let nested_loop = in_loop && rng.chance(1, 2);
    let mut ops = Vec::new();
    // parent state
    let n_prefix_push = rng.usize(4);
    for _ in 0..n_prefix_push {
        ops.push(PUSH(rng.range(-5, 100)));
    }
    let mem: Vec<Word> = (0..rng.usize(6)).map(|i| 900 + i as Word).collect();
    ops.extend(frag_mem_append(&mem));
    if rng.chance(1, 10) {
        // a parent memory that is full or nearly so: what the children add must be counted
        // exactly (silent children fit, one word too many does not)
        let fill = 10240 - mem.len() as Word - *rng.pick(&[0, 0, 1, 2, 3, 5, 64]);
        tag.push_str(&format!("parent-mem-{},", fill + mem.len() as Word));
        ops.extend([PUSH(fill), ALOC(), POP()]);
    }
    let big_breadth = breadth > 250 && breadth < 6000;
    let mut below_breadth = false;
    if big_breadth && !tag.contains("parent-mem-") && rng.chance(1, 2) {
        // the parent's memory ends a little below the breadth: the first few hundred children
        // can read "their" word of it, the last ones cannot — whatever their siblings wrote
        let want = (breadth - 1 - rng.range(0, 40)).max(mem.len() as Word + 1);
        tag.push_str(&format!("parent-mem-{want},"));
        ops.extend([PUSH(want - mem.len() as Word), ALOC(), POP()]);
        below_breadth = true;
    }
    let two_computes = !in_loop && mem.len() >= 2 && rng.chance(1, 4);
    if in_loop {
        tag.push_str("in-repeat,");
        ops.extend([PUSH(2 + rng.range(0, 1)), PUSH(rng.range(0, 1)), REP()]);
    }
    if nested_loop {
        tag.push_str("in-nested-repeat,");
        ops.extend([PUSH(1 + rng.range(0, 1)), PUSH(rng.range(0, 1)), REP()]);
    }
    if !in_loop && rng.chance(1, 12) {
        // the parent's stack is full when the Compute executes (the breadth is its 4096th
        // word): popping the breadth makes room for exactly the child index
        let room = 4095 - n_prefix_push as Word - *rng.pick(&[0, 0, 0, 1, 2]);
        tag.push_str(&format!("parent-stack-{},", room + n_prefix_push as Word + 1));
        ops.extend([PUSH(room - 1), RES()]);
    }
    ops.push(PUSH(breadth));
    ops.push(COM());
    let com_ix = ops.len() - 1;
    let stack_full = tag.contains("parent-stack-409");
    let body = if below_breadth {
        tag.push_str("store-index,parent-load,");
        vec![PUSH(1), ALOC(), POP(), DUP(), PUSH(0), STO(), DUP(), LODP(), POP()]
    } else if stack_full && rng.chance(3, 4) {
        // only bodies that never need a word above the index can succeed here
        tag.push_str("stack-neutral,");
        match rng.below(3) {
            0 => vec![],
            1 => vec![POP(), PUSH(7)],
            _ => vec![POP()],
        }
    } else if two_computes && rng.chance(1, 2) {
        tag.push_str("silent,");
        vec![POP(), PUSH(0)]
    } else {
        child_body(rng, breadth, &mut tag)
    };
    ops.extend(body);
    match rng.below(6) {
        0 if !two_computes => tag.push_str("no-compute-end,"),
        _ => ops.push(COME()),
    }
    if two_computes {
        // the parent changes its memory between two Computes: the children of the second one
        // must see the memory as it is then
        tag.push_str("then-second-compute,");
        match rng.below(6) {
            0 => ops.extend([PUSH(-71), PUSH(-72), PUSH(2), PUSH(0), STOR()]),
            1 => ops.extend([PUSH(-73), PUSH(1), STO()]),
            2 => {
                // a state read into the existing memory (needs room for one pair and one word)
                ops.extend([PUSH(3), ALOC(), POP()]);
                ops.extend([PUSH(50), PUSH(1), PUSH(2), PUSH(1), PUSH(0), KRNG()]);
            }
            3 => ops.extend([PUSH(50), PUSH(1), PUSH(2), PUSH(0), PUSH(0), KRNG()]),
            4 => ops.extend([PUSH(2), ALOC(), POP(), PUSH(-74), PUSH(0), STO()]),
            _ => ops.extend([PUSH(-75), PUSH(-76), PUSH(-77), PUSH(2), PUSH(0), STOR(), PUSH(0), STO()]),
        }
        let b2 = 1 + rng.range(0, 3);
        ops.extend([PUSH(b2), COM()]);
        ops.extend([PUSH(2), ALOC(), POP(), PUSH(0), PUSH(2), LODPR(), PUSH(2), PUSH(0), STOR()]);
        ops.push(COME());
    }
    // suffix
    for _ in 0..rng.usize(3) {
        ops.push(PUSH(rng.range(0, 9)));
    }
    if nested_loop {
        ops.push(REPE());
    }
    if in_loop {
        ops.push(REPE());
    }
    if rng.chance(1, 5) {
        ops.extend([PUSH(0), ALOC()]); // expose the memory length on the stack
    }
    c.program = to_bytes(&ops);
    c.pre = (0..6)
        .map(|i| (c.contract, vec![50, i as Word], vec![7000 + i as Word]))
        .collect();
    if rng.chance(1, 6) {
        c.faults.push(Fault::BadKey {
            view: None,
            contract: c.contract,
            key: vec![50, rng.range(0, 5)],
            id: 7100,
        });
    }
    if tag.contains("state-read") && rng.chance(1, 6) {
        // F2: the n-th device request fails once (a child's read, whichever arrives n-th): the
        // Compute fails whatever the schedule; nothing it did before may be dropped from the books
        c.faults.push(Fault::Transient {
            nth: rng.below(6),
            id: 7150,
        });
        tag.push_str("transient-read-error,");
    }
    c.container = random_container(rng);
    if rng.chance(1, 10) {
        // F8: the instruction store fails to deliver one operation of the Compute's body (every
        // child that gets there fails, so the Compute fails on every schedule)
        let n_ops = crate::ops::from_bytes(&c.program).map(|o| o.len()).unwrap_or(0);
        if n_ops > com_ix + 1 {
            let at = com_ix + 1 + rng.usize((n_ops - com_ix - 1).min(8));
            c.container = Container::Lazy { fail_at: Some(at) };
            tag.push_str(&format!("fetch-error-at-{at},"));
        }
    }
    c.shape = format!("forkjoin breadth={breadth} {tag}");
    c
}

// ---------------------------------------------------------------------------------
// C07 generator

pub fn gen_gas(rng: &mut Rng) -> VmCase {
    let mut c = if rng.chance(1, 2) {
        gen_forkjoin(rng, true)
    } else {
        let mut c = base_case(rng);
        let mut ops = Vec::new();
        match rng.below(4) {
            0 => {
                // straight line
                for _ in 0..(1 + rng.usize(12)) {
                    ops.push(PUSH(rng.range(0, 9)));
                    if rng.chance(1, 3) {
                        ops.push(POP());
                    }
                }
            }
            1 => {
                // repeat loop
                let n = 1 + rng.range(0, 6);
                ops.extend([PUSH(n), PUSH(rng.range(0, 1)), REP(), PUSH(1), POP(), REPE()]);
            }
            2 => {
                // backward jump: count down from k
                let k = 1 + rng.range(0, 5);
                ops.extend([PUSH(k), PUSH(1), SUB(), DUP(), PUSH(0), GT()]);
                // if top > 0 jump back 5
                ops.extend([PUSH(-7), SWAP(), JMPIF()]);
            }
            _ => {
                let n = 2 + rng.usize(10);
                ops.extend(crate::gen::soup(rng, n));
            }
        }
        c.program = to_bytes(&ops);
        c.shape = "gas plain".into();
        c
    };
    c.cost = match rng.below(10) {
        0 => CostSpec::Const(0),
        1 => CostSpec::Const(1),
        2 => CostSpec::Const(1 + rng.below(5)),
        3 => CostSpec::Table(vec![0, 1, 2, 3, 5, 8, 13]),
        4 => CostSpec::Table(vec![1, 1 << 32, 3]),
        5 => CostSpec::Table(vec![1 << 62, 1, 1 << 62]),
        6 => CostSpec::Table(vec![u64::MAX, 1, 2]),
        7 => CostSpec::Const(u64::MAX / 2 + 1),
        8 => CostSpec::ByOperand(2 + rng.below(9)),
        _ => CostSpec::Table((0..7).map(|_| 1 + rng.below(4)).collect()),
    };
    c.per_yield = *rng.pick(&[1u64, 4096, u64::MAX, 0]);
    c.shape = format!("{} cost={:?}", c.shape, c.cost);
    c
}

fn limits_for(rng: &mut Rng, audit: &[u64], total: u128) -> Vec<u64> {
    let mut v: Vec<u64> = Vec::new();
    if total <= 150 {
        for l in 0..=(total as u64 + 1) {
            v.push(l);
        }
    } else {
        v.extend([0, 1]);
        let mut p: u128 = 0;
        for c in audit.iter().take(200) {
            p += *c as u128;
            for d in [-1i128, 0, 1] {
                let x = p as i128 + d;
                if x >= 0 && x <= u64::MAX as i128 {
                    v.push(x as u64);
                }
            }
        }
        for _ in 0..10 {
            let cap = total.min(u64::MAX as u128) as u64;
            v.push(rng.below(cap.max(1)));
        }
    }
    v.extend([u64::MAX, u64::MAX - 1]);
    v.sort_unstable();
    v.dedup();
    if v.len() > 60 {
        // keep the boundaries, sample the rest
        let mut keep: Vec<u64> = v.iter().copied().filter(|_| rng.chance(60, v.len() as u64)).collect();
        keep.extend([0, u64::MAX]);
        if total <= u64::MAX as u128 {
            keep.push(total as u64);
            keep.push((total as u64).saturating_sub(1));
        }
        keep.sort_unstable();
        keep.dedup();
        v = keep;
    }
    v
}

// ---------------------------------------------------------------------------------
// C11 generator

pub fn gen_read(rng: &mut Rng) -> VmCase {
    let mut c = base_case(rng);
    // a second solution, solving a predicate of another contract
    c.solutions.push(vec![vec![5]]);
    let post = rng.chance(1, 2);
    let ext = rng.chance(1, 2);
    let mut other = [0u8; 32];
    for ch in other.chunks_mut(8) {
        ch.copy_from_slice(&rng.next_u64().to_be_bytes());
    }
    let target = if ext { other } else { c.contract };
    // state: different contents in the two views and the two contracts
    let key_len = rng.usize(5);
    let base_key: Key = (0..key_len)
        .map(|i| if rng.chance(1, 5) { Word::MAX } else { 30 + i as Word })
        .collect();
    let mut k = base_key.clone();
    let mut u = 0;
    for _ in 0..8 {
        for (view_post, contract) in [(false, c.contract), (true, c.contract), (false, other), (true, other)] {
            if rng.chance(2, 3) {
                u += 1;
                let v: Value = (0..rng.usize(4)).map(|j| 10_000 * (u as Word) + j as Word).collect();
                if view_post {
                    c.post.push((contract, k.clone(), v));
                } else {
                    c.pre.push((contract, k.clone(), v));
                }
            }
        }
        match crate::store::next_key(k.clone()) {
            Some(n) => k = n,
            None => break,
        }
    }
    let num: Word = match rng.below(14) {
        0 => 0,
        1 => -1,
        2 => Word::MAX,
        3 => 40,
        4 => 1 << 20,
        _ => rng.range(1, 8),
    };
    let mem_len = match rng.below(6) {
        0 => 0,
        1 => 2,
        _ => rng.usize(64),
    };
    let addr: Word = match rng.below(10) {
        0 => -1,
        1 => mem_len as Word,
        2 => mem_len as Word + 1,
        3 => Word::MAX,
        _ => rng.range(0, (mem_len as i64 / 2).max(0)),
    };
    c.init_memory = (0..mem_len).map(|i| 0x4D00 + i as Word).collect();
    let below: Vec<Word> = (0..rng.usize(4)).map(|i| 0x5B00 + i as Word).collect();
    let mut st = below.clone();
    if ext {
        st.extend(word_4_from_u8_32(other));
    }
    st.extend(base_key.iter().copied());
    let kl: Word = match rng.below(12) {
        0 => key_len as Word + 50, // longer than the stack
        1 => -1,
        _ => key_len as Word,
    };
    st.push(kl);
    st.push(num);
    st.push(addr);
    c.init_stack = st;
    let op = match (ext, post) {
        (false, false) => KRNG(),
        (true, false) => KREX(),
        (false, true) => PKRNG(),
        (true, true) => PKREX(),
    };
    let mut ops = vec![op];
    let plain = kl == key_len as Word && (0..=8).contains(&num) && addr >= 0 && (addr as usize) <= mem_len;
    let twin = plain && rng.chance(1, 4);
    if twin {
        // the same request again, to the *other* view, on the same VM: each view must be asked
        // and what it answers must be what lands in memory (the two views hold different values)
        if ext {
            for w in word_4_from_u8_32(other) {
                ops.push(PUSH(w));
            }
        }
        for w in &base_key {
            ops.push(PUSH(*w));
        }
        ops.extend([PUSH(kl), PUSH(num), PUSH(addr)]);
        ops.push(match (ext, post) {
            (false, false) => PKRNG(),
            (true, false) => PKREX(),
            (false, true) => KRNG(),
            (true, true) => KREX(),
        });
    } else if rng.chance(1, 4) {
        ops.push(PUSH(0x77)); // something after the read
    }
    c.program = to_bytes(&ops);
    // device behaviour for this request
    match rng.below(10) {
        0 => c.faults.push(Fault::BadKey {
            view: None,
            contract: target,
            key: base_key.clone(),
            id: 7200,
        }),
        1 => c.faults.push(Fault::Short {
            contract: target,
            key: base_key.clone(),
            drop: 1 + rng.usize(2),
        }),
        2 => c.faults.push(Fault::Long {
            contract: target,
            key: base_key.clone(),
            extra: 1 + rng.usize(3),
        }),
        3 => c.faults.push(Fault::Hostile {
            contract: target,
            key: base_key.clone(),
            shape: match rng.below(4) {
                0 => Shape::AllEmpty,
                1 => Shape::Huge(10239 + rng.usize(3)),
                2 => Shape::Huge(mem_len.max(3) - 2),
                _ => Shape::Many(1000 + rng.usize(5000)),
            },
        }),
        4 => c.faults.push(Fault::Transient { nth: 0, id: 7201 }),
        _ => {}
    }
    if plain && !twin && num == 1 && rng.chance(1, 12) {
        // a full memory, filled exactly (or by one word too many) by the answer: one pair and
        // one value of 10238 (10239) words at address 0
        c.init_memory = (0..10240).map(|i| 0x4D00 + i as Word).collect();
        let n = c.init_stack.len();
        c.init_stack[n - 1] = 0;
        c.faults = vec![Fault::Hostile {
            contract: target,
            key: base_key.clone(),
            shape: Shape::Huge(10238 + rng.usize(2)),
        }];
    }
    c.container = random_container(rng);
    c.shape = format!(
        "read ext={ext} post={post} key_len={key_len} kl={kl} num={num} addr={addr} mem={mem_len} faults={}",
        c.faults.len()
    );
    c
}

// ---------------------------------------------------------------------------------
// C05 generator

const BOUNDARY: [Word; 16] = [
    0, 1, -1, 2, 3, 4, 8, 63, 64, 4095, 4096, 4097, 10239, 10240, Word::MAX, Word::MIN,
];

pub fn gen_total(rng: &mut Rng) -> (VmCase, usize) {
    let mut c = base_case(rng);
    let all = all_nullary();
    let mut ops = Vec::new();
    let mode = rng.below(10);
    let n = match mode {
        0..=4 => 1 + rng.usize(4),  // short, dense over boundary constants
        5..=7 => 5 + rng.usize(30), // medium
        _ => 50 + rng.usize(350),   // long
    };
    for _ in 0..n {
        if rng.chance(1, 2) {
            let w = if rng.chance(3, 4) {
                *rng.pick(&BOUNDARY)
            } else {
                rng.range(-3, 12)
            };
            ops.push(PUSH(w));
        } else {
            ops.push(*rng.pick(&all));
        }
    }
    // 1 in 12: a loop that drives one resource into its bound — frames opened by `Repeat`
    // without ever being closed, words pushed, memory allocated, with a backward jump around it.
    // Whatever the bound, the VM must stop with a typed error *at* it.
    let bomb = rng.chance(1, 12);
    let mut nested = false;
    if bomb {
        ops.clear();
        let body: Vec<Op> = match rng.below(6) {
            5 => vec![],
            0 => vec![PUSH(1 + rng.range(0, 2)), PUSH(rng.range(0, 1)), REP()],
            1 => vec![PUSH(7), PUSH(7), PUSH(7)],
            2 => vec![PUSH(*rng.pick(&[1, 7, 1000, 4096])), ALOC(), POP()],
            3 => vec![PUSH(3), PUSH(1), REP(), PUSH(9)],
            _ => vec![DUP(), DUP(), PUSH(2), ALOC()],
        };
        if body.is_empty() {
            // a Compute inside a compute program: nesting depth 2 must be refused, whatever
            // the parent's memory holds (nothing, in half of the cases)
            nested = true;
            ops.extend([PUSH(1 + rng.range(0, 2)), COM()]);
            for _ in 0..rng.usize(3) {
                ops.extend([PUSH(7), POP()]);
            }
            ops.extend([PUSH(1 + rng.range(0, 2)), COM(), PUSH(1), ALOC(), POP(), COME(), COME()]);
        } else if rng.chance(1, 2) {
            // an enclosing counting loop instead of a jump
            ops.extend([PUSH(*rng.pick(&[4095, 4096, 4097, 5000, 12000])), PUSH(1), REP()]);
            ops.extend(body.iter().copied());
            ops.push(REPE());
        } else {
            ops.push(PUSH(5));
            let start = ops.len();
            ops.extend(body.iter().copied());
            // jump back to `start` unconditionally
            let dist = (ops.len() + 2 - start) as Word;
            ops.extend([PUSH(-dist), PUSH(1), JMPIF()]);
        }
    }
    c.program = to_bytes(&ops);
    // initial state at and near the bounds
    let sl = match rng.below(8) {
        0 => 4096,
        1 => 4095,
        2 => 4094,
        _ => rng.usize(12),
    };
    c.init_stack = (0..sl).map(|_| if rng.chance(1, 3) { *rng.pick(&BOUNDARY) } else { rng.range(0, 9) }).collect();
    let ml = match rng.below(8) {
        0 => 10240,
        1 => 10239,
        _ => rng.usize(20),
    };
    c.init_memory = (0..ml).map(|i| i as Word).collect();
    if nested {
        // room on the stack for the breadths and the child index; memory empty or not
        c.init_stack.truncate(8);
        if rng.chance(1, 2) {
            c.init_memory.clear();
        } else {
            c.init_memory.truncate(100);
        }
    }
    // solution data incl. large slots
    c.solutions = vec![
        vec![vec![1, 2, 3], vec![], (0..rng.usize(40)).map(|i| i as Word).collect()],
        vec![vec![Word::MAX]],
    ];
    c.index = rng.usize(2);
    // state with hostile shapes behind some keys
    for i in 0..4 {
        c.pre.push((c.contract, vec![i], vec![i; (i as usize) % 3]));
        c.post.push((c.contract, vec![i], vec![-i; 2]));
    }
    if rng.chance(1, 3) {
        c.faults.push(Fault::Hostile {
            contract: c.contract,
            key: vec![*rng.pick(&[0, 1, 2, 3])],
            shape: match rng.below(3) {
                0 => Shape::Huge(10241),
                1 => Shape::Many(6000),
                _ => Shape::AllEmpty,
            },
        });
    }
    c.cost = match rng.below(6) {
        0 => CostSpec::Const(0),
        1 => CostSpec::Table(vec![u64::MAX, 1 << 62, 1]),
        2 => CostSpec::Const(1 << 63),
        _ => CostSpec::Const(1),
    };
    c.limit_total = match rng.below(4) {
        0 => rng.below(50),
        1 => u64::MAX - rng.below(3),
        _ => u64::MAX,
    };
    c.container = match rng.below(6) {
        0 => Container::Lazy {
            fail_at: Some(rng.usize(ops.len().max(1))),
        },
        _ => random_container(rng),
    };
    c.shape = format!("total n={n} stack={sl} mem={ml}{}", if nested { " nested-compute" } else if bomb { " bomb" } else { "" });
    (c, 1 + rng.usize(3))
}

// ---------------------------------------------------------------------------------
// evaluation

fn hash_outcome(r: &Result<(VmResult, VmState), String>) -> u64 {
    label(&format!("{r:?}"))
}

fn panic_finding(p: &crate::runner::PanicInfo) -> Finding {
    finding(
        "panic",
        format!(
            "panic out of the VM: {} at {} [{}]",
            p.message,
            p.location,
            p.system_frame.clone().unwrap_or_default()
        ),
    )
}

pub fn evaluate(sc: &VmScenario) -> VmEval {
    let mut ev = VmEval::default();
    match sc {
        VmScenario::ForkJoin { case, spec, frames } => eval_forkjoin(&mut ev, case, spec, *frames),
        VmScenario::Gas { case, spec, limits } => eval_gas(&mut ev, case, spec, limits),
        VmScenario::Read { case, spec, then_as } => eval_read(&mut ev, case, spec, *then_as),
        VmScenario::Total { case, spec, calls } => eval_total(&mut ev, case, spec, *calls),
        VmScenario::Determinism { case, specs, limit_frac } => eval_determinism(&mut ev, case, specs, *limit_frac),
    }
    ev
}

fn eval_determinism(ev: &mut VmEval, case: &VmCase, specs: &[SchedSpec], limit_frac: Option<(u64, u64)>) {
    let ca = Arc::new(case.clone());
    let (r0, info0) = run_vm(&ca, &SchedSpec::sequential(), u64::MAX, RunOpts::default());
    ev.infos.push(info0);
    let Ok(mut o0) = r0 else {
        ev.note("sequential_abnormal");
        return;
    };
    // a finite budget the children compete for: a fraction of what the unlimited run spends
    let mut limit = u64::MAX;
    if let (Some((num, den)), VmResult::Ok { gas }) = (limit_frac, &o0.result) {
        limit = ((*gas as u128 * num as u128) / den.max(1) as u128).max(1) as u64;
        let (r1, info1) = run_vm(&ca, &SchedSpec::sequential(), limit, RunOpts::default());
        ev.infos.push(info1);
        match r1 {
            Ok(o1) => o0 = o1,
            Err(_) => {
                ev.note("sequential_abnormal");
                return;
            }
        }
        ev.note("finite_limit");
    }
    for spec in specs {
        let (r, info) = run_vm(&ca, spec, limit, RunOpts::default());
        if info.multi_error_regions > 0 {
            ev.note("several_children_failed");
        }
        ev.infos.push(info);
        match r {
            Ok(o) => {
                if o.result != o0.result || o.state != o0.state {
                    ev.finding = Some(finding(
                        "schedule-dependence",
                        format!(
                            "Vm::exec: sequential {:?} {} | under {}: {:?} {} [{}]",
                            o0.result,
                            brief(&o0.state),
                            spec.describe(),
                            o.result,
                            brief(&o.state),
                            case.shape
                        ),
                    ));
                    return;
                }
            }
            Err(VmRunError::Budget) => ev.note("budget_skipped"),
            Err(VmRunError::Harness(m)) => {
                ev.finding = Some(finding("harness-error", m));
                return;
            }
            Err(e) => {
                ev.finding = Some(finding(
                    "schedule-dependence",
                    format!("Vm::exec: sequential {:?}, under {}: {e:?} [{}]", o0.result, spec.describe(), case.shape),
                ));
                return;
            }
        }
    }
    ev.outcome_hash = hash_outcome(&Ok((o0.result.clone(), o0.state.clone())));
}

fn compare_with_model(m: &MOutcome, o: &VmOutcome, compute_pcs: &[usize]) -> Result<(), String> {
    match (&m.result, &o.result) {
        (Ok(t), VmResult::Ok { gas }) => {
            if *t != *gas as u128 {
                return Err(format!("gas: reference {t}, actual {gas}"));
            }
            if m.state != o.state {
                return Err(format!("final state: reference {:?}\nactual {:?}", brief(&m.state), brief(&o.state)));
            }
            Ok(())
        }
        (Err(e), VmResult::Err { pc, kind, .. }) => {
            // how a failing Compute is reported (which error type wraps it) is not fixed by the
            // statement ("… fails the parent"): for the Compute op itself only the position counts
            let at_compute = matches!(e.kind.as_str(), "Compute" | "Memory") && compute_pcs.contains(&e.pc);
            if e.pc != *pc || (e.kind != *kind && !at_compute) {
                return Err(format!("error: reference {}@{}, actual {kind}@{pc}", e.kind, e.pc));
            }
            Ok(())
        }
        (a, b) => Err(format!("reference {a:?}, actual {b:?}")),
    }
}

fn brief(s: &VmState) -> String {
    format!(
        "pc={} halt={} stack[{}]={:?} memory[{}]={:?}",
        s.pc,
        s.halt,
        s.stack.len(),
        &s.stack[..s.stack.len().min(12)],
        s.memory.len(),
        &s.memory[..s.memory.len().min(24)]
    )
}

fn eval_forkjoin(ev: &mut VmEval, case: &VmCase, spec: &SchedSpec, frames: bool) {
    let m = match m_exec(case, 300_000) {
        Ok(m) => m,
        Err(p) => {
            // the reference steps non-compute ops with the real step function: a panic there is a
            // VM panic (C05's subject), not a fork/join matter
            ev.note("reference_panicked");
            let _ = p;
            return;
        }
    };
    if m.budget_hit {
        ev.note("budget_skipped");
        return;
    }
    let ca = Arc::new(case.clone());
    let (r, info) = run_vm(
        &ca,
        spec,
        u64::MAX,
        RunOpts {
            snapshots: frames,
            snap_limit: 6000,
            ..Default::default()
        },
    );
    ev.infos.push(info.clone());
    let o = match r {
        Ok(o) => o,
        Err(VmRunError::Budget) => {
            ev.note("budget_skipped");
            return;
        }
        Err(VmRunError::Panic(p)) => {
            ev.finding = Some(panic_finding(&p));
            return;
        }
        Err(VmRunError::Deadlock(m)) => {
            ev.finding = Some(finding("deadlock", m));
            return;
        }
        Err(VmRunError::StepLimit) => {
            ev.finding = Some(finding("step-limit", "execution exceeded the step budget"));
            return;
        }
        Err(VmRunError::Harness(m)) => {
            ev.finding = Some(finding("harness-error", m));
            return;
        }
    };
    if info.multi_error_regions > 0 {
        ev.note("several_children_failed");
    }
    if !m.forks.is_empty() {
        ev.note("forked");
    }
    let compute_pcs: Vec<usize> = case
        .ops()
        .iter()
        .enumerate()
        .filter(|(_, o)| **o == COM())
        .map(|(i, _)| i)
        .collect();
    if let Err(msg) = compare_with_model(&m, &o, &compute_pcs) {
        ev.finding = Some(finding("forkjoin-mismatch", format!("{msg} [{}]", case.shape)));
        return;
    }
    if let Some(b) = &o.hook.bound_violation {
        ev.finding = Some(finding("vm-bound", b.clone()));
        return;
    }
    // frame conditions: what each child saw at its first op
    if frames && o.before.len() < 6000 && m.forks.len() <= 8 {
        let ok = matches!(o.result, VmResult::Ok { .. });
        let mut expected: Vec<(usize, Vec<Word>, Vec<Word>)> = Vec::new();
        let n_ops = case.ops().len();
        for f in &m.forks {
            if f.breadth > 256 {
                return;
            }
            if f.pc + 1 >= n_ops {
                // the Compute is the last operation: its children execute nothing at all
                continue;
            }
            for i in 0..f.breadth {
                let mut st = f.parent_stack.clone();
                st.push(i);
                if st.len() > crate::hooks::STACK_LIMIT {
                    continue;
                }
                expected.push((f.pc + 1, st, f.parent_memory.clone()));
            }
        }
        let mut actual: Vec<(usize, Vec<Word>, Vec<Word>)> = o
            .before
            .iter()
            .filter(|s| s.parent_memory.len() == 1 && s.gas_spent == 0)
            .map(|s| {
                (
                    s.pc,
                    s.stack.clone(),
                    s.parent_memory[0].clone(),
                )
            })
            .collect();
        // a child whose first op is free (cost 0) would be counted at every free op: costs are 1 here
        for s in o.before.iter().filter(|s| s.parent_memory.len() == 1 && s.gas_spent == 0) {
            if !s.memory.is_empty() {
                ev.finding = Some(finding(
                    "forkjoin-child-frame",
                    format!("a child started with non-empty memory {:?}", &s.memory[..s.memory.len().min(8)]),
                ));
                return;
            }
        }
        expected.sort();
        actual.sort();
        let bad = if ok {
            expected != actual
        } else {
            // after an error not-yet-started children may be skipped
            !is_sub_multiset(&actual, &expected)
        };
        if bad {
            ev.finding = Some(finding(
                "forkjoin-child-frame",
                format!(
                    "children did not start from (parent stack ++ [i], empty memory, parent's memory): expected {} starts, saw {}; first difference: {:?}",
                    expected.len(),
                    actual.len(),
                    first_diff(&expected, &actual)
                ),
            ));
            return;
        }
        ev.note("frames_checked");
    }
    ev.outcome_hash = hash_outcome(&Ok((o.result.clone(), o.state.clone())));
}

fn is_sub_multiset<T: Ord + Clone>(a: &[T], b: &[T]) -> bool {
    let mut j = 0;
    for x in a {
        while j < b.len() && b[j] < *x {
            j += 1;
        }
        if j >= b.len() || b[j] != *x {
            return false;
        }
        j += 1;
    }
    true
}

fn first_diff<T: PartialEq + std::fmt::Debug + Clone>(a: &[T], b: &[T]) -> Option<(Option<T>, Option<T>)> {
    for i in 0..a.len().max(b.len()) {
        if a.get(i) != b.get(i) {
            return Some((a.get(i).cloned(), b.get(i).cloned()));
        }
    }
    None
}

fn eval_gas(ev: &mut VmEval, case: &VmCase, spec: &SchedSpec, limits: &[u64]) {
    let m = match m_exec(case, 100_000) {
        Ok(m) => m,
        Err(_) => {
            ev.note("reference_panicked");
            return;
        }
    };
    if m.budget_hit {
        ev.note("budget_skipped");
        return;
    }
    let total: u128 = m.audit.iter().map(|c| *c as u128).sum();
    let compute_free = m.forks.is_empty() && !case.ops().iter().any(|o| *o == COM());
    let ca = Arc::new(case.clone());
    let min_cost = m.audit.iter().copied().min().unwrap_or(1);
    let mut all_limits: Vec<u64> = limits.to_vec();
    if !all_limits.contains(&u64::MAX) {
        all_limits.push(u64::MAX);
    }
    for (li, &limit) in all_limits.iter().enumerate() {
        // vary the schedule along the sweep
        let sp = SchedSpec {
            seed: derive(spec.seed, &[li as u64]),
            ..spec.clone()
        };
        let (r, info) = run_vm(&ca, &sp, limit, RunOpts::default());
        ev.infos.push(info);
        let o = match r {
            Ok(o) => o,
            Err(VmRunError::Budget) => {
                if min_cost >= 1 && limit <= 50_000 {
                    ev.finding = Some(finding(
                        "gas-nontermination",
                        format!("costs >= {min_cost}, limit {limit}: the execution did not stop within the op budget [{}]", case.shape),
                    ));
                    return;
                }
                ev.note("budget_skipped");
                continue;
            }
            Err(VmRunError::Panic(p)) => {
                ev.finding = Some(finding(
                    "gas-panic",
                    format!("limit {limit}: panic: {} at {} [{}]", p.message, p.location, case.shape),
                ));
                return;
            }
            Err(VmRunError::Deadlock(m)) => {
                ev.finding = Some(finding("deadlock", m));
                return;
            }
            Err(VmRunError::StepLimit) => {
                ev.finding = Some(finding("step-limit", "step budget"));
                return;
            }
            Err(VmRunError::Harness(m)) => {
                ev.finding = Some(finding("harness-error", m));
                return;
            }
        };
        let charged: u128 = o.charges.iter().map(|c| *c as u128).sum();
        match &o.result {
            VmResult::Ok { gas } => {
                // conservation: reported = Σ audited ≤ limit
                if *gas as u128 != charged {
                    // under a limit, a refused op is asked for its cost but not executed: it is not part
                    // of a *successful* execution, so on Ok every audited cost was spent
                    ev.finding = Some(finding(
                        "gas-not-conserved",
                        format!("limit {limit}: Ok({gas}) but the cost seam handed out {charged} [{}]", case.shape),
                    ));
                    return;
                }
                if *gas > limit {
                    ev.finding = Some(finding(
                        "gas-limit-exceeded",
                        format!("limit {limit}: Ok({gas}) [{}]", case.shape),
                    ));
                    return;
                }
                match &m.result {
                    Ok(t) => {
                        if *t != *gas as u128 {
                            ev.finding = Some(finding(
                                "gas-wrong-total",
                                format!("limit {limit}: Ok({gas}), reference total {t} [{}]", case.shape),
                            ));
                            return;
                        }
                        if m.state != o.state {
                            ev.finding = Some(finding(
                                "gas-state-differs",
                                format!("limit {limit}: final state differs from the reference run: {} vs {}", brief(&m.state), brief(&o.state)),
                            ));
                            return;
                        }
                    }
                    Err(e) => {
                        ev.finding = Some(finding(
                            "gas-wrong-total",
                            format!("limit {limit}: Ok({gas}) but the reference run fails with {}@{} [{}]", e.kind, e.pc, case.shape),
                        ));
                        return;
                    }
                }
                if total > limit as u128 {
                    ev.finding = Some(finding(
                        "gas-limit-exceeded",
                        format!("limit {limit}: Ok({gas}) although the program needs {total} [{}]", case.shape),
                    ));
                    return;
                }
            }
            VmResult::Err { pc, kind, oog } => {
                let is_oog = kind == "OutOfGas" || kind == "Compute";
                if total <= limit as u128 {
                    // enough gas: the outcome must be the reference's
                    match &m.result {
                        Ok(t) => {
                            ev.finding = Some(finding(
                                "gas-spurious-failure",
                                format!("limit {limit} >= total {t}: {kind}@{pc} {oog:?} [{}]", case.shape),
                            ));
                            return;
                        }
                        Err(e) => {
                            if e.pc != *pc || e.kind != *kind {
                                ev.finding = Some(finding(
                                    "gas-wrong-error",
                                    format!("limit {limit}: reference {}@{}, actual {kind}@{pc} [{}]", e.kind, e.pc, case.shape),
                                ));
                                return;
                            }
                        }
                    }
                } else if compute_free {
                    // exact: stopped before the first op it could not afford, with no effect
                    let mut spent: u128 = 0;
                    let mut k = 0usize;
                    while k < m.audit.len() && spent + m.audit[k] as u128 <= limit as u128 {
                        spent += m.audit[k] as u128;
                        k += 1;
                    }
                    // the reference may itself fail before reaching op k
                    let ref_fails_first = matches!(&m.result, Err(_)) && k >= m.audit.len();
                    if ref_fails_first {
                        continue;
                    }
                    let before = m_exec(case, k as u64).ok();
                    let exp_state = before.as_ref().map(|b| &b.state);
                    let exp_oog = (spent as u64, m.audit[k], limit);
                    if kind != "OutOfGas" || *oog != Some(exp_oog) {
                        ev.finding = Some(finding(
                            "gas-wrong-stop",
                            format!("limit {limit}: expected OutOfGas{exp_oog:?} before op #{k}, got {kind}@{pc} {oog:?} [{}]", case.shape),
                        ));
                        return;
                    }
                    if let Some(es) = exp_state {
                        if es.pc != *pc || *es != o.state {
                            ev.finding = Some(finding(
                                "gas-effect-before-stop",
                                format!("limit {limit}: state at the out-of-gas stop differs from the state before op #{k}: {} vs {}", brief(es), brief(&o.state)),
                            ));
                            return;
                        }
                    }
                } else if !is_oog {
                    // with compute, some child's own error may legitimately come first only if the
                    // reference fails too
                    if m.result.is_ok() {
                        ev.finding = Some(finding(
                            "gas-wrong-error",
                            format!("limit {limit} < total {total}: {kind}@{pc} instead of out-of-gas [{}]", case.shape),
                        ));
                        return;
                    }
                }
            }
        }
    }
    if !compute_free {
        ev.note("with_compute");
    }
    ev.outcome_hash = label(&format!("{:?}{:?}", m.result, total));
}

/// M-layout: where `values` go when written at `addr` into a memory of `len` words.
fn layout(mem: &[Word], addr: usize, values: &[Value]) -> Option<Vec<Word>> {
    let mut out = mem.to_vec();
    let mut pair = addr;
    let mut val = addr.checked_add(values.len().checked_mul(2)?)?;
    for v in values {
        if pair.checked_add(2)? > out.len() {
            return None;
        }
        out[pair] = val as Word;
        out[pair + 1] = v.len() as Word;
        let end = val.checked_add(v.len())?;
        if end > out.len() {
            return None;
        }
        out[val..end].copy_from_slice(v);
        val = end;
        pair += 2;
    }
    Some(out)
}

/// Two reads of the same range on one VM, the second through the other view.
fn eval_read_twin(ev: &mut VmEval, case: &VmCase, spec: &SchedSpec, first_post: bool, addr: usize, below: &[Word]) {
    let ca = Arc::new(case.clone());
    let (r, info) = run_vm(&ca, spec, u64::MAX, RunOpts::default());
    ev.infos.push(info);
    let o = match r {
        Ok(o) => o,
        Err(VmRunError::Panic(p)) => {
            ev.finding = Some(panic_finding(&p));
            return;
        }
        Err(VmRunError::Harness(m)) => {
            ev.finding = Some(finding("harness-error", m));
            return;
        }
        Err(e) => {
            ev.finding = Some(finding("read-abnormal", format!("{e:?}")));
            return;
        }
    };
    ev.note("twin_reads");
    let reads: Vec<&Ev> = o.reads.iter().collect();
    let Some(Ev::Read { view: v1, contract: c1, key: k1, n: n1, err: e1, data: d1, .. }) = reads.first().copied() else {
        ev.finding = Some(finding("read-request-count", format!("0 device requests for two read ops [{}]", case.shape)));
        return;
    };
    let want1 = if first_post { View::Post } else { View::Pre };
    let want2 = if first_post { View::Pre } else { View::Post };
    if *v1 != want1 {
        ev.finding = Some(finding("read-wrong-request", format!("first read asked {v1:?}, operands say {want1:?} [{}]", case.shape)));
        return;
    }
    // the first read may legitimately fail (device fault, answer does not fit): then nothing follows
    let first_mem = match (e1, d1) {
        (None, Some(values)) => layout(&case.init_memory, addr, values),
        _ => None,
    };
    let Some(mem1) = first_mem else {
        if reads.len() > 1 && matches!(o.result, VmResult::Err { pc: 0, .. }) {
            ev.finding = Some(finding("read-request-count", format!("the first read failed, yet {} requests were made [{}]", reads.len(), case.shape)));
        }
        return;
    };
    if reads.len() != 2 {
        ev.finding = Some(finding(
            "read-request-count",
            format!("{} device requests for two read ops (one per view) [{}]", reads.len(), case.shape),
        ));
        return;
    }
    let Ev::Read { view: v2, contract: c2, key: k2, n: n2, err: e2, data: d2, .. } = reads[1] else {
        return;
    };
    if *v2 != want2 || c2 != c1 || k2 != k1 || n2 != n1 {
        ev.finding = Some(finding(
            "read-wrong-request",
            format!("second read asked {v2:?} contract {:02x?}.. key {k2:?} n {n2}; operands say {want2:?} contract {:02x?}.. key {k1:?} n {n1} [{}]", &c2[..4], &c1[..4], case.shape),
        ));
        return;
    }
    if let (None, Some(values)) = (e2, d2) {
        if let (Some(mem2), VmResult::Ok { .. }) = (layout(&mem1, addr, values), &o.result) {
            if o.state.memory != mem2 {
                ev.finding = Some(finding(
                    "read-wrong-layout",
                    format!(
                        "memory after the second read (other view) differs from the layout of what that view returned: expected {:?} got {:?} [{}]",
                        &mem2[..mem2.len().min(40)],
                        &o.state.memory[..o.state.memory.len().min(40)],
                        case.shape
                    ),
                ));
                return;
            }
            if o.state.stack != below {
                ev.finding = Some(finding("read-stack-frame", format!("stack after two reads {:?}, words below the operands were {below:?} [{}]", o.state.stack, case.shape)));
            }
        }
    }
}

fn eval_read(ev: &mut VmEval, case: &VmCase, spec: &SchedSpec, then_as: Option<usize>) {
    let ops = case.ops();
    let Some(op) = ops.first().copied() else {
        return;
    };
    let (ext, post) = if op == KRNG() {
        (false, false)
    } else if op == KREX() {
        (true, false)
    } else if op == PKRNG() {
        (false, true)
    } else if op == PKREX() {
        (true, true)
    } else {
        return;
    };
    // decode the operands the way the specification lists them
    let st = &case.init_stack;
    let mut valid = true;
    let mut ix = st.len();
    let take = |ix: &mut usize| -> Option<Word> {
        if *ix == 0 {
            None
        } else {
            *ix -= 1;
            Some(st[*ix])
        }
    };
    let addr = take(&mut ix);
    let num = take(&mut ix);
    let kl = take(&mut ix);
    let mut key: Key = vec![];
    let mut contract = case.contract;
    match (addr, num, kl) {
        (Some(a), Some(n), Some(k)) if a >= 0 && n >= 0 && k >= 0 && (k as usize) <= ix => {
            key = st[ix - k as usize..ix].to_vec();
            ix -= k as usize;
            if ext {
                if ix >= 4 {
                    let w = [st[ix - 4], st[ix - 3], st[ix - 2], st[ix - 1]];
                    contract = essential_types::convert::u8_32_from_word_4(w);
                    ix -= 4;
                } else {
                    valid = false;
                }
            }
        }
        _ => valid = false,
    }
    let below = &st[..ix.min(st.len())];
    if valid && ops.len() > 2 && matches!(ops.last(), Some(l) if *l == KRNG() || *l == KREX() || *l == PKRNG() || *l == PKREX()) {
        return eval_read_twin(ev, case, spec, post, addr.unwrap() as usize, below);
    }
    let ca = Arc::new(case.clone());
    if let (Some(ix2), true, false) = (then_as, valid, ext) {
        // the same VM serves another solution afterwards: its own-contract read must go to that
        // solution's contract
        let (r, info) = run_vm(
            &ca,
            spec,
            u64::MAX,
            RunOpts {
                then_as: Some(ix2),
                ..Default::default()
            },
        );
        ev.infos.push(info);
        if let Ok(o) = r {
            let want = case.contract_of(ix2);
            let reqs: Vec<&Ev> = o.reads.iter().collect();
            if let Some(Ev::Read { contract: rc, .. }) = reqs.last() {
                if reqs.len() == 2 && *rc != want {
                    ev.finding = Some(finding(
                        "read-wrong-request",
                        format!(
                            "a VM reused for solution {ix2} asked contract {:02x?}.. instead of that solution's contract {:02x?}.. [{}]",
                            &rc[..4], &want[..4], case.shape
                        ),
                    ));
                    return;
                }
                if reqs.len() == 2 {
                    ev.note("reused_vm_checked");
                }
            }
        }
    }
    let (r, info) = run_vm(&ca, spec, u64::MAX, RunOpts::default());
    ev.infos.push(info);
    let o = match r {
        Ok(o) => o,
        Err(VmRunError::Panic(p)) => {
            ev.finding = Some(panic_finding(&p));
            return;
        }
        Err(VmRunError::Harness(m)) => {
            ev.finding = Some(finding("harness-error", m));
            return;
        }
        Err(e) => {
            ev.finding = Some(finding("read-abnormal", format!("{e:?}")));
            return;
        }
    };
    let reads: Vec<&Ev> = o.reads.iter().collect();
    if !valid {
        ev.note("invalid_operands");
        // invalid operands are errors, and nothing is asked of the device
        if matches!(o.result, VmResult::Ok { .. }) {
            ev.finding = Some(finding("read-invalid-accepted", format!("invalid operands accepted [{}]", case.shape)));
        } else if !reads.is_empty() {
            ev.finding = Some(finding("read-invalid-requested", format!("invalid operands, yet the device was asked: {:?} [{}]", reads[0], case.shape)));
        }
        return;
    }
    let (a, n) = (addr.unwrap() as usize, num.unwrap() as usize);
    // exactly one request, to the right view, for the right contract, with the popped key and count
    if reads.len() != 1 {
        ev.finding = Some(finding("read-request-count", format!("{} device requests for one read op [{}]", reads.len(), case.shape)));
        return;
    }
    let Ev::Read { view, contract: rc, key: rk, n: rn, err, data, .. } = reads[0] else {
        return;
    };
    let want_view = if post { View::Post } else { View::Pre };
    if *view != want_view || *rc != contract || *rk != key || *rn != n {
        ev.finding = Some(finding(
            "read-wrong-request",
            format!(
                "asked {view:?} contract {:02x?}.. key {rk:?} n {rn}; operands say {want_view:?} contract {:02x?}.. key {key:?} n {n} [{}]",
                &rc[..4], &contract[..4], case.shape
            ),
        ));
        return;
    }
    match (err, data) {
        (Some(id), _) => {
            ev.note("device_error");
            // a state error is returned unchanged, at the op's index
            let ok = matches!(&o.result, VmResult::Err { pc: 0, kind, .. } if *kind == format!("StateRead#{id}"));
            if !ok {
                ev.finding = Some(finding("read-error-not-propagated", format!("device error #{id}, result {:?} [{}]", o.result, case.shape)));
            }
        }
        (None, Some(values)) => {
            let exp = layout(&case.init_memory, a, values);
            match (exp, &o.result) {
                (Some(mem), VmResult::Ok { .. }) => {
                    ev.note("laid_out");
                    if o.state.memory != mem {
                        ev.finding = Some(finding(
                            "read-wrong-layout",
                            format!("memory after the read differs from the documented layout at {a} for {} values: expected {:?} got {:?} [{}]", values.len(), &mem[..mem.len().min(40)], &o.state.memory[..o.state.memory.len().min(40)], case.shape),
                        ));
                        return;
                    }
                    let tail_ok = if ops.len() > 1 {
                        o.state.stack.len() == below.len() + 1 && o.state.stack[..below.len()] == *below
                    } else {
                        o.state.stack == below
                    };
                    if !tail_ok {
                        ev.finding = Some(finding(
                            "read-stack-frame",
                            format!("stack after the read {:?}, words below the operands were {:?} [{}]", o.state.stack, below, case.shape),
                        ));
                    }
                }
                (None, VmResult::Ok { .. }) => {
                    ev.finding = Some(finding(
                        "read-overflow-accepted",
                        format!("{} values do not fit into memory of {} at {a}, yet the read succeeded (memory now {}) [{}]", values.len(), case.init_memory.len(), o.state.memory.len(), case.shape),
                    ));
                }
                (Some(_), VmResult::Err { kind, .. }) => {
                    ev.finding = Some(finding(
                        "read-spurious-error",
                        format!("the answer fits, yet the read failed with {kind} [{}]", case.shape),
                    ));
                }
                (None, VmResult::Err { .. }) => {
                    ev.note("does_not_fit");
                    if o.state.memory.len() != case.init_memory.len() {
                        ev.finding = Some(finding("read-memory-grown", format!("memory length changed from {} to {} [{}]", case.init_memory.len(), o.state.memory.len(), case.shape)));
                    }
                }
            }
        }
        (None, None) => {}
    }
    ev.outcome_hash = hash_outcome(&Ok((o.result.clone(), o.state.clone())));
}

fn eval_total(ev: &mut VmEval, case: &VmCase, spec: &SchedSpec, calls: usize) {
    let ca = Arc::new(case.clone());
    let limit = case.limit_total;
    let c2 = ca.clone();
    let spec2 = spec.clone();
    // several exec calls on the same VM: states only reachable by continuing
    let out = crate::runner::run_sim(&spec2, move || {
        crate::events::reset(false);
        crate::hooks::reset(false, 0);
        crate::store::reset_faults(100_000);
        rayon::sim::set_item_budget(50_000);
        crate::hooks::set_op_budget(200_000);
        let r = crate::runner::catch(|| {
            let mut vm = initial_vm(&c2).expect("initial state within bounds");
            let mut results = Vec::new();
            for _ in 0..calls {
                let r = exec_real(&c2, &mut vm, limit);
                let stop = matches!(r, VmResult::Err { .. });
                results.push(r);
                if stop {
                    break;
                }
                // continue from where it stopped, like a caller resuming after a yield
                if vm.pc >= c2.ops().len() {
                    vm.pc = 0;
                }
            }
            (results, VmState {
                pc: vm.pc,
                stack: vm.stack.to_vec(),
                memory: vm.memory.to_vec(),
                halt: vm.halt,
                parent_depth: vm.parent_memory.len(),
                repeat_depth: vm.repeat.depth(),
            })
        });
        (r, crate::hooks::take(), crate::events::take())
    });
    let mut info = ExecInfo {
        steps: out.steps,
        context_switches: out.context_switches,
        order_hash: out.stats.order_hash,
        regions_multi: out.stats.regions_multi,
        ..Default::default()
    };
    match out.result {
        Err(crate::runner::SimFailure::Panic(p)) => {
            ev.infos.push(info);
            ev.finding = Some(panic_finding(&p));
        }
        Err(crate::runner::SimFailure::ItemBudget) => {
            ev.infos.push(info);
            ev.note("budget_skipped");
        }
        Err(e) => {
            ev.infos.push(info);
            ev.finding = Some(finding("total-abnormal", format!("{e:?}")));
        }
        Ok((r, hs, log)) => {
            info.ops = log.ops;
            info.reads = log.reads;
            info.event_hash = log.hash;
            ev.infos.push(info);
            // a bound seen by the monitor counts whatever became of the execution afterwards
            // (an execution that outgrows a bound typically also outruns the op budget)
            if let Some(b) = &hs.bound_violation {
                ev.finding = Some(finding("vm-bound", format!("{b} [{}]", case.shape)));
                return;
            }
            match r {
                Err(p) if p.message.contains("budget") => ev.note("budget_skipped"),
                Err(p) if p.location.contains("/verif/sim/") => {
                    ev.finding = Some(finding("harness-error", format!("{} at {}", p.message, p.location)))
                }
                Err(p) => ev.finding = Some(panic_finding(&p)),
                Ok((results, state)) => {
                    if let Some(b) = hs.bound_violation {
                        ev.finding = Some(finding("vm-bound", format!("{b} [{}]", case.shape)));
                        return;
                    }
                    if state.stack.len() > crate::hooks::STACK_LIMIT || state.memory.len() > crate::hooks::MEMORY_LIMIT {
                        ev.finding = Some(finding("vm-bound", format!("final state out of bounds: stack {} memory {}", state.stack.len(), state.memory.len())));
                        return;
                    }
                    if case.shape.contains("nested-compute") {
                        ev.note("nested_compute_programs");
                        if matches!(results.first(), Some(VmResult::Ok { .. })) {
                            ev.finding = Some(finding(
                                "vm-bound",
                                format!("a Compute inside a compute program was carried out instead of refused (nesting depth 2) [{}]", case.shape),
                            ));
                            return;
                        }
                    }
                    if results.iter().any(|r| matches!(r, VmResult::Ok { .. })) {
                        ev.note("some_call_ok");
                    }
                    ev.outcome_hash = label(&format!("{results:?}{state:?}"));
                }
            }
        }
    }
}

// ---------------------------------------------------------------------------------
// family glue

pub fn plan(prop: &str, tier: &str) -> Vec<BatchPlan> {
    let q = tier != "thorough";
    let mk = |name: &str, quick: u64, thorough: u64, faulty: bool| BatchPlan {
        name: name.to_string(),
        cases: if q { quick } else { thorough },
        faulty,
    };
    match prop {
        "C10" => vec![mk("c10-forkjoin", 40_000, 2_500_000, false)],
        "C02" => vec![mk("c02-vm", 12_000, 800_000, false)],
        "C07" => vec![mk("c07-gas", 12_000, 600_000, true)],
        "C11" => vec![mk("c11-read", 120_000, 8_000_000, false)],
        "C05" => vec![
            // closed set: every op x every triple of boundary operands (61 x 16^3)
            mk("c05-enum3", 249_856, 249_856, false),
            mk("c05-total", 150_000, 12_000_000, false),
        ],
        _ => vec![],
    }
}

pub fn scenario_for(batch: &str, run_seed: u64) -> Option<VmScenario> {
    let mut wl = Rng::new(derive(run_seed, &[label("workload")]));
    let mut sr = Rng::new(derive(run_seed, &[label("schedule")]));
    Some(match batch {
        "c10-forkjoin" => {
            let light = wl.chance(2, 3);
            let case = gen_forkjoin(&mut wl, light);
            let mut spec = random_spec(&mut sr, false);
            if wl.chance(3, 4) {
                spec.per_op_switch = true;
            }
            VmScenario::ForkJoin {
                case,
                spec,
                frames: light && wl.chance(1, 2),
            }
        }
        "c07-gas" => {
            let case = gen_gas(&mut wl);
            let (audit, total) = match m_exec(&case, 100_000) {
                Ok(m) => {
                    let t: u128 = m.audit.iter().map(|c| *c as u128).sum();
                    (m.audit, t)
                }
                Err(_) => (vec![], 0),
            };
            let limits = limits_for(&mut wl, &audit, total);
            VmScenario::Gas {
                case,
                spec: random_spec(&mut sr, true),
                limits,
            }
        }
        "c11-read" => {
            let case = gen_read(&mut wl);
            let spec = if sr.chance(1, 2) {
                SchedSpec::sequential()
            } else {
                random_spec(&mut sr, true)
            };
            let then_as = if wl.chance(1, 4) { Some(1) } else { None };
            VmScenario::Read { case, spec, then_as }
        }
        "c02-vm" => {
            let light = wl.chance(1, 2);
            let case = gen_forkjoin(&mut wl, light);
            let specs = (0..6)
                .map(|_| {
                    let mut s = random_spec(&mut sr, false);
                    if sr.chance(2, 3) {
                        s.per_op_switch = true;
                    }
                    s
                })
                .collect();
            // half of the cases under a finite budget
            let limit_frac = match wl.below(8) {
                0 => Some((1, 2)),
                1 => Some((3, 4)),
                2 => Some((9, 10)),
                3 => Some((1, 1)),
                _ => None,
            };
            VmScenario::Determinism { case, specs, limit_frac }
        }
        "c05-enum3" => {
            let case_ix = crate::c06::CASE_INDEX.with(|c| c.get());
            let all = all_nullary();
            let op = all[(case_ix / 4096) as usize % all.len()];
            let (a, b, c) = (
                BOUNDARY[(case_ix % 16) as usize],
                BOUNDARY[((case_ix / 16) % 16) as usize],
                BOUNDARY[((case_ix / 256) % 16) as usize],
            );
            let mut case = base_case(&mut wl);
            case.program = to_bytes(&[PUSH(c), PUSH(b), PUSH(a), op]);
            case.init_stack = vec![7, 7, 7, 7];
            case.init_memory = (0..8).collect();
            case.solutions = vec![vec![vec![1, 2, 3], vec![]], vec![vec![9]]];
            for i in 0..4 {
                case.pre.push((case.contract, vec![i], vec![i; (i as usize) % 3]));
            }
            case.shape = format!("enum3 {op:?} {a} {b} {c}");
            VmScenario::Total {
                case,
                spec: SchedSpec::sequential(),
                calls: 1,
            }
        }
        "c05-total" => {
            let (case, calls) = gen_total(&mut wl);
            let has_compute = case.ops().iter().any(|o| *o == COM());
            let spec = if has_compute && sr.chance(1, 2) {
                random_spec(&mut sr, false)
            } else {
                SchedSpec {
                    kind: SchedKind::Sequential,
                    seed: 0,
                    workers: 1,
                    per_op_switch: false,
                }
            };
            VmScenario::Total { case, spec, calls }
        }
        _ => return None,
    })
}

fn sample_of(sc: &VmScenario) -> Json {
    let seq = SchedSpec::sequential();
    let (case, spec) = match sc {
        VmScenario::ForkJoin { case, spec, .. }
        | VmScenario::Gas { case, spec, .. }
        | VmScenario::Read { case, spec, .. }
        | VmScenario::Total { case, spec, .. } => (case, spec),
        VmScenario::Determinism { case, specs, .. } => (case, specs.first().unwrap_or(&seq)),
    };
    json!({
        "shape": case.shape,
        "schedule": spec.describe(),
        "program": disasm(&case.program).into_iter().take(40).collect::<Vec<_>>(),
        "init_stack_len": case.init_stack.len(),
        "init_memory_len": case.init_memory.len(),
        "cost": case.cost,
        "container": case.container,
        "faults": case.faults,
        "limits_swept": match sc { VmScenario::Gas{limits,..} => limits.len(), _ => 0 },
    })
}

pub fn run_case(_prop: &str, batch: &str, run_seed: u64) -> CaseOut {
    let mut out = CaseOut::default();
    let Some(sc) = scenario_for(batch, run_seed) else {
        return out;
    };
    let case = match &sc {
        VmScenario::ForkJoin { case, .. }
        | VmScenario::Gas { case, .. }
        | VmScenario::Read { case, .. }
        | VmScenario::Determinism { case, .. }
        | VmScenario::Total { case, .. } => case,
    };
    out.shape_hash = label(&format!("{:?}{:?}{:?}", case.program, case.init_stack.len(), case.cost));
    let ev = evaluate(&sc);
    out.sample = Some(sample_of(&sc));
    // cases without a schedule dimension still count as distinct non-trivial when they executed ops
    for i in &ev.infos {
        if i.ops > 0 {
            out.extra_nontrivial
                .push(derive(out.shape_hash, &[i.event_hash, i.order_hash, ev.outcome_hash]));
        }
    }
    out.own_nontrivial_rule = true;
    out.infos = ev.infos;
    for (k, v) in ev.notes {
        *out.notes.entry(k.to_string()).or_default() += v;
    }
    out.outcome_hash = Some(ev.outcome_hash);
    if let Some(f) = ev.finding {
        out.findings.push((f, serde_json::to_value(VmPayload::Vm(sc)).unwrap()));
    }
    out
}

#[derive(Clone, Debug, Serialize, Deserialize)]
pub enum VmPayload {
    Vm(VmScenario),
}

pub fn replay(payload: &Json) -> Result<Option<Finding>, String> {
    let p: VmPayload = serde_json::from_value(payload.clone()).map_err(|e| e.to_string())?;
    match p {
        VmPayload::Vm(sc) => Ok(evaluate(&sc).finding),
    }
}

/// Minimise: schedule first, then the program op by op, then the initial state.
pub fn shrink_payload(payload: &Json, class: &str) -> (Json, Json) {
    let Ok(VmPayload::Vm(sc)) = serde_json::from_value::<VmPayload>(payload.clone()) else {
        return (payload.clone(), json!({"minimised": false}));
    };
    let t0 = std::time::Instant::now();
    let budget = std::time::Duration::from_secs(20);
    let repro = |sc: &VmScenario| evaluate(sc).finding.map(|f| f.class == class).unwrap_or(false);
    let mut cur = sc.clone();
    let mut tried = 0u64;
    let mut kept = 0u64;
    let set_spec = |sc: &VmScenario, s: SchedSpec| -> VmScenario {
        let mut c = sc.clone();
        match &mut c {
            VmScenario::ForkJoin { spec, .. }
            | VmScenario::Gas { spec, .. }
            | VmScenario::Read { spec, .. }
            | VmScenario::Total { spec, .. } => *spec = s,
            VmScenario::Determinism { .. } => {}
        }
        c
    };
    let set_case = |sc: &VmScenario, nc: VmCase| -> VmScenario {
        let mut c = sc.clone();
        match &mut c {
            VmScenario::ForkJoin { case, .. }
            | VmScenario::Gas { case, .. }
            | VmScenario::Read { case, .. }
            | VmScenario::Determinism { case, .. }
            | VmScenario::Total { case, .. } => *case = nc,
        }
        c
    };
    let get_case = |sc: &VmScenario| -> VmCase {
        match sc {
            VmScenario::ForkJoin { case, .. }
            | VmScenario::Gas { case, .. }
            | VmScenario::Read { case, .. }
            | VmScenario::Determinism { case, .. }
            | VmScenario::Total { case, .. } => case.clone(),
        }
    };
    let seq = set_spec(&cur, SchedSpec::sequential());
    tried += 1;
    let mut schedule_irrelevant = false;
    if !matches!(cur, VmScenario::Determinism { .. }) && repro(&seq) {
        cur = seq;
        kept += 1;
        schedule_irrelevant = true;
    }
    if let VmScenario::Gas { limits, .. } = &cur {
        // a single limit is enough if it reproduces
        for l in limits.clone() {
            let mut c = cur.clone();
            if let VmScenario::Gas { limits, .. } = &mut c {
                *limits = vec![l];
            }
            tried += 1;
            if repro(&c) {
                cur = c;
                kept += 1;
                break;
            }
        }
    }
    let mut progress = true;
    while progress && t0.elapsed() < budget {
        progress = false;
        let case = get_case(&cur);
        let ops = case.ops();
        let mut cands: Vec<VmCase> = Vec::new();
        for i in 0..ops.len() {
            let mut v = ops.clone();
            v.remove(i);
            let mut c = case.clone();
            c.program = to_bytes(&v);
            cands.push(c);
        }
        if !case.faults.is_empty() {
            let mut c = case.clone();
            c.faults.clear();
            cands.push(c);
        }
        if !case.pre.is_empty() || !case.post.is_empty() {
            let mut c = case.clone();
            c.pre.clear();
            c.post.clear();
            cands.push(c);
        }
        if case.init_memory.len() > 2 {
            let mut c = case.clone();
            c.init_memory.truncate(case.init_memory.len() / 2);
            cands.push(c);
        }
        if case.container != Container::Slice {
            let mut c = case.clone();
            c.container = Container::Slice;
            cands.push(c);
        }
        if case.cost != CostSpec::Const(1) {
            let mut c = case.clone();
            c.cost = CostSpec::Const(1);
            cands.push(c);
        }
        for nc in cands {
            if t0.elapsed() > budget {
                break;
            }
            let c = set_case(&cur, nc);
            tried += 1;
            if repro(&c) {
                cur = c;
                kept += 1;
                progress = true;
                break;
            }
        }
    }
    let info = json!({
        "minimised": true,
        "candidates_tried": tried,
        "candidates_kept": kept,
        "schedule_irrelevant": schedule_irrelevant,
        "program_ops_before": get_case(&sc).ops().len(),
        "program_ops_after": get_case(&cur).ops().len(),
    });
    (serde_json::to_value(VmPayload::Vm(cur)).unwrap(), info)
}

pub fn known(_prop: &str, _payload: &Json, _class: &str, _known: &[KnownFinding]) -> Option<String> {
    None
}

pub fn describe(prop: &str) -> PropText {
    let real_vs_stub = json!({
        "real (working tree of /repo)": ["essential-vm (Vm::exec, sync::step_op, compute, state_read, …)", "essential-asm", "essential-types", "sha2", "ed25519-dalek", "secp256k1"],
        "stub": {"rayon": "rayon-sim (compute children are simulated tasks under shuttle's seeded schedulers, or inline in sequential mode)"},
        "simulated seams (ours)": ["state device pre/post views with fault injection", "cost table OpGasCost with audit log", "op container incl. lazily parsing store with fetch errors", "hook H1: per-op monitors, switch points, VM snapshots"],
        "treated as atomic": ["std::sync::OnceLock", "std::sync::Arc"],
    });
    let (rule, level) = match prop {
        "C10" => ("cases = generated parent states x breadths (<=0, 1, 2..64, thousands) x child bodies (index-dependent allocation, branches, early ComputeEnd, Halt, failures, nested compute, parent-memory and state reads, PredicateExists, enclosing repeat) ; each is executed by the real VM under a seeded schedule (op-granular switching in 3/4 of the cases) and compared with M-exec, a sequential fork/join loop written from the statement; half of the light cases also check what every child saw at its first op. distinct = distinct (program shape, interleaving hash, device log hash, outcome hash); non-trivial = at least one op executed", "exploration"),
        "C07" => ("cases = programs (straight-line, repeat, backward jump, op soup, compute of any breadth) x cost tables (0, 1, small, 2^32, 2^62, u64::MAX) ; each case: reference run with its own u128 accounting, then the total limit is swept (every value 0..=T+1 for T<=150, boundary-biased sample above, plus u64::MAX-δ) on the real VM under varying seeded schedules; conservation (reported = sum of audited costs <= limit), exact stop-before-effect for compute-free programs, classification for compute programs. The limit sweep is a fault-point enumeration: execution is cut before every possible op", "fault_enumeration"),
        "C11" => ("cases = one of the four key-range reads on prepared operands (key length 0..4 incl. MAX words, counts 0..8/40/2^20/negative/i64::MAX, addresses in and out of range, memory 0..64 words) against pre/post views and two contracts with different contents; device behaviour per case: honest, persistent or transient error with unique id, short read, long read, hostile shapes; oracle = the device's own request log + M-layout of what the device returned + frame conditions", "exploration"),
        "C05" => ("cases = programs over the full op set with operands biased to boundary constants (short programs densely, long random programs), initial stack/memory at and near the limits, hostile device answers, cost tables and limits, fetch errors, 1..3 consecutive exec calls on one VM, compute programs under seeded schedules; oracle = no panic out of the VM, bound monitor after every op on every VM, typed result. The same seeds run in three builds (optimised+overflow-checks, optimised wrapping, dev) and the outcome hashes must agree", "exploration"),
        _ => ("", "exploration"),
    };
    PropText {
        level,
        rule: rule.to_string(),
        assumptions: vec![
            "non-compute ops are stepped by the real sync::step_op inside the reference loop (op semantics are C08/C09's subject, not claimed)".into(),
            "rayon's documented guarantees only; OnceLock/Arc atomic; switch points at seam calls and op boundaries".into(),
            "inputs, cost tables, limits and schedules are sampled from one seed".into(),
        ],
        real_vs_stub,
    }
}

pub const FAMILY: crate::driver::Family = crate::driver::Family {
    plan,
    run_case,
    replay,
    shrink: shrink_payload,
    known,
    describe,
};
