//! Swarm-style generator of checker-level workloads (DESIGN.md §7).
//!
//! A workload is first drawn in *abstract* form — DAGs with a role per node, solutions
//! with a uid, a key space laid out in rows so that ranges straddle mutated and unmutated
//! keys and word carry — and then realised under a numbering of each DAG. Node programs
//! do not depend on the numbering, so one abstract workload can be realised twice and the
//! two results compared ("a function of the graph's edges only").

use crate::events::CA;
use crate::graph::{self, Dag, Numbering};
use crate::model;
use crate::ops::*;
use crate::rng::Rng;
use crate::store::{Fault, StateMap};
use crate::wl::{Entry, PredDef, SolDef, Workload};
use essential_types::{convert::word_4_from_u8_32, Key, Value, Word};
use std::collections::{BTreeMap, BTreeSet};

pub const BEACON_ROW: Word = 0x0BEAC0_0000;
pub const COMPUTED_ROW: Word = 0x00C0_0000;
pub const TAG_BASE: Word = 0x7A60_0000;

#[derive(Clone, Debug, PartialEq)]
pub enum ReadTarget {
    Own,
    Extern(CA),
}

#[derive(Clone, Debug, PartialEq)]
pub struct ReadSpec {
    pub post: bool,
    pub target: ReadTarget,
    pub key: Key,
    pub count: usize,
    /// words of memory set aside for the answer
    pub room: usize,
}

#[derive(Clone, Debug, PartialEq)]
pub enum Role {
    /// hash all input down to 4 words, push the node tag, leave one word in memory
    Digest,
    /// keep the input, push tag words and append tag words to memory
    Append { stack_words: usize, mem_words: usize },
    /// read state into fresh memory (then behave like Append)
    Read(ReadSpec),
    /// fork `breadth` children, each storing its index (and optionally reading state)
    Compute {
        breadth: Word,
        child_reads: bool,
        /// children whose index is in this list fail (PanicIf)
        failing: Vec<Word>,
        /// even children halt from inside a loop of their own; odd children record the counter
        /// of the loop that encloses the Compute
        own_loop_exit: bool,
    },
    /// PredicateExists on the given hash words; with a `target` solution the words are set
    /// (by `finalize`) to the hash under which that solution is registered, so the op yields 1
    Pex {
        words: [Word; 4],
        target: Option<usize>,
        /// a second lookup in the same VM (same lazily initialised cache)
        words2: [Word; 4],
        target2: Option<usize>,
    },
    /// root only: leaves exactly `stack` words on the stack and `mem` words in memory (sizes at
    /// and next to the limits: what a child inherits from its parents may fill it completely)
    Fill { stack: usize, mem: usize },
    /// fails on purpose
    Fail(u8),
    /// leaf: digest of the input must equal predicate data slot `slot`
    Check { slot: usize },
    /// leaf: reads state, then like Check
    ReadCheck { spec: ReadSpec, slot: usize },
    /// leaf: emits `n` mutations under keys [COMPUTED_ROW + uid, col..] with values derived from the input
    /// `bad`: 0 = a valid encoding; 1 = the second mutation repeats the first one's key
    /// (duplicate within the solution); 2 = the encoding lacks its last word; 3 = a negative
    /// value length. All solutions solving the predicate then fail to decode together.
    /// `empty_key_last`: one more mutation at the very end — the deletion of the zero-length key
    /// (two words: key length 0, value length 0), the shortest mutation there is.
    DataOut { n: usize, col0: Word, delete_first: bool, bad: u8, empty_key_last: bool },
    /// leaf: ends with the single word 1 regardless of input
    True,
    /// leaf: ends with a final stack that is *near* the accepting shapes — [x, 1], [x, 2] with
    /// memory, [], [0], [3], [1, 1], [2, 2], [-1], [1, x], [2, 0] — all of which are "unsatisfied"
    /// by the statement of C01 (exactly the single word 1 / the single word 2)
    LeafShape(u8),
    /// random operations
    Soup(Vec<Op>),
}

#[derive(Clone, Debug)]
pub struct APred {
    pub contract: CA,
    pub dag: Dag,
    pub roles: Vec<Role>,
    pub n_slots: usize,
    /// `alias[b] = Some(a)`: node `b` carries the very same program as node `a` (same bytes,
    /// same address): nothing says a program belongs to one node only
    pub alias: Vec<Option<usize>>,
}

#[derive(Clone, Debug)]
pub struct ASol {
    pub pred: usize,
    pub uid: Word,
    pub muts: Vec<(Key, Value)>,
    /// check slots to perturb (leaf will be unsatisfied)
    pub bad_slots: BTreeSet<usize>,
    /// filled in by `finalize`
    pub slots: Vec<[Word; 4]>,
}

#[derive(Clone, Debug)]
pub struct Abstract {
    pub contracts: Vec<CA>,
    pub pre: Vec<(CA, Key, Value)>,
    pub preds: Vec<APred>,
    pub sols: Vec<ASol>,
    pub collect_all: bool,
    pub entry: Entry,
    pub faults: Vec<Fault>,
    pub shape: String,
    pub beacons: bool,
    pub decoy_seed: u64,
    pub stale_prelude: bool,
    pub prefix_prelude: bool,
    pub alias_pred_hash: bool,
}

#[derive(Clone, Debug)]
pub struct GenCfg {
    pub max_nodes: usize,
    pub max_sols: usize,
    pub post_reads: bool,
    pub compute: bool,
    pub data_out: bool,
    pub failures: bool,
    pub unsat: bool,
    pub faults: bool,
    pub beacons: bool,
    pub soup: bool,
    pub pex: bool,
    /// at least two solutions solving two different predicates, and a PredicateExists node in
    /// every predicate (so that lookups can be aimed at solutions that exist)
    pub pex_heavy: bool,
    /// a set of exactly this many solutions (the documented maximum is 100)
    pub exact_sols: Option<usize>,
}

impl GenCfg {
    pub fn swarm(rng: &mut Rng) -> GenCfg {
        GenCfg {
            max_nodes: match rng.below(100) {
                0 => 150,
                1..=5 => 40,
                _ => 2 + rng.usize(9),
            },
            max_sols: match rng.below(200) {
                0 => 100,
                1..=6 => 24,
                _ => 1 + rng.usize(5),
            },
            post_reads: rng.chance(2, 3),
            compute: rng.chance(1, 3),
            data_out: rng.chance(2, 3),
            failures: rng.chance(1, 4),
            unsat: rng.chance(1, 4),
            faults: false,
            beacons: rng.chance(3, 4),
            soup: rng.chance(1, 8),
            pex: rng.chance(1, 3),
            pex_heavy: false,
            exact_sols: if rng.chance(1, 120) { Some(100) } else { None },
        }
    }
}

fn tag(pred: usize, node: usize) -> Word {
    TAG_BASE + (pred as Word) * 4096 + node as Word
}

fn ca(rng: &mut Rng) -> CA {
    let mut c = [0u8; 32];
    for ch in c.chunks_mut(8) {
        ch.copy_from_slice(&rng.next_u64().to_be_bytes());
    }
    c
}

/// The key space of one contract: a few *rows* of adjacent keys, including rows that end
/// in `Word::MAX` so that ranges carry into the next row.
#[derive(Clone, Debug)]
pub struct KeySpace {
    pub keys: Vec<Key>,
}

fn key_space(rng: &mut Rng) -> KeySpace {
    let mut keys = Vec::new();
    // one-word keys
    let b1 = rng.range(-3, 3);
    for c in 0..4 {
        keys.push(vec![b1 + c]);
    }
    keys.push(vec![Word::MAX - 1]);
    keys.push(vec![Word::MAX]);
    // two-word rows
    for r in 0..2 {
        let row = 10 + r;
        for c in 0..5 {
            keys.push(vec![row, c]);
        }
        keys.push(vec![row, Word::MAX - 1]);
        keys.push(vec![row, Word::MAX]);
        keys.push(vec![row + 1, Word::MIN]);
        keys.push(vec![row + 1, Word::MIN + 1]);
    }
    // three-word row with a double carry
    keys.push(vec![20, Word::MAX, Word::MAX - 1]);
    keys.push(vec![20, Word::MAX, Word::MAX]);
    keys.push(vec![21, Word::MIN, Word::MIN]);
    keys.push(vec![21, Word::MIN, Word::MIN + 1]);
    // the all-MAX key (range ends at wrap-around)
    keys.push(vec![Word::MAX, Word::MAX]);
    keys.sort();
    keys.dedup();
    KeySpace { keys }
}

fn unique_value(counter: &mut Word, rng: &mut Rng) -> Value {
    let n = 1 + rng.usize(3);
    (0..n)
        .map(|_| {
            *counter += 1;
            0x5A00_0000 + *counter
        })
        .collect()
}

pub fn gen_abstract(rng: &mut Rng, cfg: &GenCfg) -> Abstract {
    let n_contracts = 1 + rng.usize(3);
    let contracts: Vec<CA> = (0..n_contracts).map(|_| ca(rng)).collect();
    let spaces: Vec<KeySpace> = (0..n_contracts).map(|_| key_space(rng)).collect();
    let mut vc: Word = 0;

    // pre-state: a random subset of every key space, unique values
    let mut pre = Vec::new();
    for (ci, c) in contracts.iter().enumerate() {
        for k in &spaces[ci].keys {
            if rng.chance(1, 2) {
                pre.push((*c, k.clone(), unique_value(&mut vc, rng)));
            }
        }
    }

    let mut n_sols = cfg.exact_sols.unwrap_or(1 + rng.usize(cfg.max_sols));
    let mut n_preds = 1 + rng.usize(n_sols.min(3));
    if cfg.pex_heavy {
        n_sols = n_sols.max(2);
        n_preds = n_preds.max(2);
    }

    // solutions first (reads want to aim at their mutations)
    let mut sols: Vec<ASol> = Vec::new();
    let mut taken: BTreeSet<(CA, Key)> = BTreeSet::new();
    let mut pred_contract: Vec<usize> = (0..n_preds).map(|_| rng.usize(n_contracts)).collect();
    if n_preds > 1 && rng.chance(1, 2) {
        // make two predicates share a contract
        pred_contract[1] = pred_contract[0];
    }
    for si in 0..n_sols {
        let pred = if si < n_preds { si } else { rng.usize(n_preds) };
        let ci = pred_contract[pred];
        let mut muts = Vec::new();
        let n_m = if rng.chance(1, 4) { 0 } else { rng.usize(5) };
        for _ in 0..n_m {
            let k = rng.pick(&spaces[ci].keys).clone();
            if taken.insert((contracts[ci], k.clone())) {
                let v = if rng.chance(1, 5) {
                    vec![] // deletion
                } else {
                    unique_value(&mut vc, rng)
                };
                muts.push((k, v));
            }
        }
        sols.push(ASol {
            pred,
            uid: 1000 + si as Word,
            muts,
            bad_slots: BTreeSet::new(),
            slots: Vec::new(),
        });
    }

    // a read aimed at interesting keys
    let read_spec = |rng: &mut Rng, post: bool, own_ci: usize, sols: &[ASol]| -> ReadSpec {
        let mut ext = rng.chance(1, 3);
        let mut ci = if ext { rng.usize(n_contracts) } else { own_ci };
        let key: Key = match rng.below(10) {
            0 => vec![], // empty key: one value, then wrap-around
            1 | 2 => {
                // a computed-mutation row of some solution (in that solution's contract)
                let s = rng.pick(sols);
                ci = pred_contract[s.pred];
                if ci != own_ci {
                    ext = true;
                }
                vec![COMPUTED_ROW + s.uid, rng.range(0, 2)]
            }
            _ => {
                let mut k = rng.pick(&spaces[ci].keys).clone();
                if rng.chance(1, 4) {
                    if let Some(l) = k.last_mut() {
                        *l = l.wrapping_sub(rng.range(0, 2));
                    }
                }
                k
            }
        };
        let target = if ext {
            ReadTarget::Extern(contracts[ci])
        } else {
            ReadTarget::Own
        };
        let count = match rng.below(8) {
            0 => 0,
            1 => 1,
            _ => 1 + rng.usize(7),
        };
        ReadSpec {
            post,
            target,
            key,
            count,
            room: 2 * count + 4 * count + rng.usize(3),
        }
    };

    let mut preds: Vec<APred> = Vec::new();
    for pi in 0..n_preds {
        let n = 1 + rng.usize(cfg.max_nodes);
        let dag = Dag::random(rng, n);
        let ci = pred_contract[pi];
        let mut roles = Vec::new();
        let mut n_slots = 0usize;
        let mut col = 0;
        for a in 0..n {
            let leaf = dag.is_leaf(a);
            let role = if leaf {
                match rng.below(12) {
                    0 | 1 | 2 if cfg.data_out => {
                        let bad = if rng.chance(1, 12) { 1 + rng.below(3) as u8 } else { 0 };
                        let nm = if bad == 1 { 2 } else { 1 + rng.usize(2) };
                        let r = Role::DataOut {
                            n: nm,
                            col0: col,
                            delete_first: rng.chance(1, 6),
                            bad,
                            empty_key_last: bad == 0 && rng.chance(1, 8),
                        };
                        col += nm as Word;
                        r
                    }
                    3 | 4 | 5 if cfg.post_reads => {
                        n_slots += 1;
                        Role::ReadCheck {
                            spec: read_spec(rng, true, ci, &sols),
                            slot: n_slots,
                        }
                    }
                    6 => {
                        n_slots += 1;
                        Role::ReadCheck {
                            spec: read_spec(rng, false, ci, &sols),
                            slot: n_slots,
                        }
                    }
                    7 if cfg.failures => Role::Fail(rng.below(3) as u8),
                    8 if cfg.soup => {
                        let n = 1 + rng.usize(12);
                        Role::Soup(soup(rng, n))
                    }
                    9 => Role::True,
                    10 if cfg.unsat && rng.chance(1, 2) => Role::LeafShape(rng.below(10) as u8),
                    _ => {
                        n_slots += 1;
                        Role::Check { slot: n_slots }
                    }
                }
            } else if cfg.pex_heavy && !roles.iter().any(|r| matches!(r, Role::Pex { .. })) {
                Role::Pex {
                    words: [rng.word(), rng.word(), rng.word(), rng.word()],
                    target: Some(rng.usize(n_sols)),
                    words2: [rng.word(), rng.word(), rng.word(), rng.word()],
                    target2: if rng.chance(1, 2) { Some(rng.usize(n_sols)) } else { None },
                }
            } else {
                match rng.below(14) {
                    13 if dag.parents(a).is_empty() && rng.chance(1, 3) => {
                        let (st, me) = *rng.pick(&[(4096usize, 0usize), (4095, 0), (2048, 0), (0, 10240), (0, 10239), (0, 5120), (2048, 5120)]);
                        Role::Fill { stack: st, mem: me }
                    }
                    0 | 1 | 2 if cfg.post_reads => Role::Read(read_spec(rng, true, ci, &sols)),
                    3 | 4 => Role::Read(read_spec(rng, false, ci, &sols)),
                    5 | 6 if cfg.compute => {
                        let breadth = match rng.below(6) {
                            0 => 1,
                            1 => 2,
                            _ => 2 + rng.range(0, 6),
                        };
                        let failing = if cfg.failures && rng.chance(1, 3) {
                            (0..breadth).filter(|_| rng.chance(1, 2)).collect()
                        } else {
                            vec![]
                        };
                        Role::Compute {
                            breadth,
                            child_reads: rng.chance(1, 2),
                            failing,
                            own_loop_exit: rng.chance(1, 3),
                        }
                    }
                    7 if cfg.failures => Role::Fail(rng.below(3) as u8),
                    8 if cfg.pex => Role::Pex {
                        words: [rng.word(), rng.word(), rng.word(), rng.word()],
                        target: if rng.chance(2, 3) { Some(rng.usize(n_sols)) } else { None },
                        words2: [rng.word(), rng.word(), rng.word(), rng.word()],
                        target2: if rng.chance(2, 3) { Some(rng.usize(n_sols)) } else { None },
                    },
                    9 | 10 => Role::Append {
                        stack_words: rng.usize(4),
                        mem_words: rng.usize(4),
                    },
                    _ => Role::Digest,
                }
            };
            roles.push(role);
        }
        // one node in eight predicates carries the same program as another node of its kind
        let mut alias: Vec<Option<usize>> = vec![None; n];
        if n >= 2 && rng.chance(1, 8) {
            let a = (0..n).find(|a| matches!(&roles[*a], Role::Read(s) if s.post) || matches!(&roles[*a], Role::ReadCheck { spec, .. } if spec.post)).unwrap_or(rng.usize(n));
            let same_kind: Vec<usize> = (0..n).filter(|b| *b != a && dag.is_leaf(*b) == dag.is_leaf(a)).collect();
            if !same_kind.is_empty() {
                let b = *rng.pick(&same_kind);
                roles[b] = roles[a].clone();
                alias[b] = Some(a);
            }
        }
        preds.push(APred {
            contract: contracts[ci],
            dag,
            roles,
            n_slots,
            alias,
        });
    }

    // unsatisfied leaves
    if cfg.unsat {
        for s in sols.iter_mut() {
            let ns = preds[s.pred].n_slots;
            if ns > 0 && rng.chance(1, 2) {
                s.bad_slots.insert(1 + rng.usize(ns));
            }
        }
    }

    let no_beacons = preds.iter().any(|p| p.alias.iter().any(|a| a.is_some()) || p.roles.iter().any(|r| matches!(r, Role::Fill { .. })));
    Abstract {
        contracts,
        pre,
        preds,
        sols,
        collect_all: rng.chance(1, 2),
        entry: match rng.below(6) {
            0 | 1 => Entry::TwoModes,
            2 => Entry::RawOutputs,
            _ => Entry::TwoPass,
        },
        faults: Vec::new(),
        shape: format!("{cfg:?}"),
        // op soup can end a program early (Halt, ComputeEnd, jumps) or run parts of it in
        // compute children: begin/end beacons would misreport such nodes
        // (… and a program shared by two nodes has one beacon key for both, and a node that
        // fills its stack has no room for the closing beacon)
        beacons: cfg.beacons
            && !cfg.soup
            && !no_beacons,
        decoy_seed: rng.next_u64(),
        stale_prelude: rng.chance(1, 3),
        prefix_prelude: rng.chance(1, 4),
        alias_pred_hash: rng.chance(1, 6),
    }
}

/// Random operations with operands biased to small values.
pub fn soup(rng: &mut Rng, n: usize) -> Vec<Op> {
    let all = all_nullary();
    let mut v = Vec::new();
    for _ in 0..n {
        if rng.chance(1, 2) {
            let w = match rng.below(8) {
                0 => Word::MAX,
                1 => Word::MIN,
                2 => -1,
                _ => rng.range(0, 6),
            };
            v.push(PUSH(w));
        } else {
            let op = *rng.pick(&all);
            // ThisAddress is the address of the *encoded* predicate: a program that asks for it
            // legitimately behaves differently under another numbering
            if op == THIS() {
                v.push(THISC());
            } else {
                v.push(op);
            }
        }
    }
    v
}

pub fn read_ops(spec: &ReadSpec) -> Vec<Op> {
    // allocate room, then read into it
    let mut v = vec![PUSH(spec.room as Word), ALOC()]; // [.., A]
    let mut pushed = 0;
    if let ReadTarget::Extern(c) = &spec.target {
        for w in word_4_from_u8_32(*c) {
            v.push(PUSH(w));
            pushed += 1;
        }
    }
    for w in &spec.key {
        v.push(PUSH(*w));
        pushed += 1;
    }
    v.push(PUSH(spec.key.len() as Word));
    v.push(PUSH(spec.count as Word));
    pushed += 2;
    v.push(PUSH(pushed as Word));
    v.push(DUPF()); // copy A (the address) to the top
    v.push(match (&spec.target, spec.post) {
        (ReadTarget::Own, false) => KRNG(),
        (ReadTarget::Own, true) => PKRNG(),
        (ReadTarget::Extern(_), false) => KREX(),
        (ReadTarget::Extern(_), true) => PKREX(),
    });
    v.push(POP()); // drop A
    v
}

/// The program of abstract node `a` of predicate `pi` (independent of any numbering).
pub fn node_program(abs: &Abstract, pi: usize, a: usize) -> Vec<Op> {
    let p = &abs.preds[pi];
    let a = p.alias.get(a).copied().flatten().unwrap_or(a);
    let t = tag(pi, a);
    let mut v = vec![PUSH(t), POP()];
    if abs.beacons {
        v.extend(frag_beacon(true, 0, BEACON_ROW + 2 * t));
    }
    // decoys for whoever scans the bytes instead of the parsed ops: a Halt that is jumped
    // over, immediates made of state-read and Push opcode bytes
    match crate::rng::derive(abs.decoy_seed, &[t as u64]) % 8 {
        0 => v.extend([PUSH(2), PUSH(1), JMPIF(), HLT()]),
        1 => v.extend([PUSH(0x8283_8283_8283_8283u64 as i64), POP()]),
        2 => v.extend([PUSH(0x0101_0101_0101_0101), POP()]),
        3 => v.extend([PUSH(0x0182_0183_8001_8101), POP()]),
        // every pre-state and address effect, jumped over: an effect analysis that stops
        // looking once it has "seen everything" misses a post-state read further down
        4 => v.extend([PUSH(5), PUSH(1), JMPIF(), KRNG(), KREX(), THIS(), THISC()]),
        _ => {}
    }
    match &p.roles[a] {
        Role::Digest => {
            v.extend(frag_mem_to_stack());
            v.extend(frag_hash_stack());
            v.push(PUSH(t));
            v.extend(frag_clear_mem());
            v.extend(frag_mem_append(&[t ^ 0x55]));
        }
        Role::Append {
            stack_words,
            mem_words,
        } => {
            for i in 0..*stack_words {
                v.push(PUSH(t * 16 + i as Word));
            }
            let m: Vec<Word> = (0..*mem_words).map(|i| t * 32 + i as Word).collect();
            v.extend(frag_mem_append(&m));
        }
        Role::Read(spec) => {
            v.extend(read_ops(spec));
            v.push(PUSH(t));
        }
        Role::Compute {
            breadth,
            child_reads,
            failing,
            own_loop_exit,
        } => {
            v.extend(frag_mem_to_stack());
            v.extend(frag_hash_stack()); // 4 words
            if *own_loop_exit {
                // an enclosing one-iteration loop whose counter the odd children read
                v.extend([PUSH(1), PUSH(1), REP()]);
            }
            v.push(PUSH(*breadth));
            v.push(COM());
            // child: stack = parent ++ [i]
            for f in failing {
                v.extend([DUP(), PUSH(*f), EQ(), PNCIF()]);
            }
            if *child_reads {
                // read key [BEACON_ROW + 1, i] (nothing there): a seam call inside the child
                v.extend([PUSH(2), ALOC(), POP()]); // room for one pair at address 0
                v.extend([
                    DUP(),
                    PUSH(BEACON_ROW + 1),
                    SWAP(),
                    PUSH(2),
                    PUSH(1),
                    PUSH(0),
                    KRNG(),
                ]);
                v.extend(frag_clear_mem());
            }
            if *own_loop_exit {
                // child: stack = parent ++ [i]
                // odd i: jump over the even branch
                v.extend([PUSH(12), PUSH(1), DUPF(), PUSH(2), MOD(), JMPIF()]);
                // even i: store a marker, then halt from inside an own count-down loop
                v.extend([PUSH(1), ALOC(), POP(), PUSH(7), PUSH(0), REP(), PUSH(1), HLTIF(), REPE(), PUSH(0), POP()]);
                // odd i: memory = [counter of the enclosing loop]
                v.extend([PUSH(1), ALOC(), POP(), REPC(), PUSH(0), STO()]);
            }
            // append [i, tag] to the child's memory
            v.extend([PUSH(2), ALOC(), POP()]);
            v.extend([DUP(), PUSH(0), ALOC(), PUSH(2), SUB(), STO()]);
            v.extend([PUSH(t), PUSH(0), ALOC(), PUSH(1), SUB(), STO()]);
            v.push(COME());
            if *own_loop_exit {
                v.push(REPE());
            }
            v.push(PUSH(t));
        }
        Role::Pex { words: h, words2: h2, .. } => {
            for w in h {
                v.push(PUSH(*w));
            }
            v.push(PEX());
            for w in h2 {
                v.push(PUSH(*w));
            }
            v.push(PEX());
            v.push(PUSH(t));
        }
        Role::Fill { stack, mem } => {
            if *mem > 0 {
                v.extend([PUSH(*mem as Word), ALOC(), POP()]);
            }
            if *stack > 0 {
                // n-1 zeros plus the start index pushed by Reserve: n words
                v.extend([PUSH(*stack as Word - 1), RES()]);
            }
        }
        Role::Fail(k) => match k {
            0 => v.extend([PUSH(1), PNCIF()]),
            1 => {
                v.extend(frag_clear_stack());
                v.push(POP());
            }
            _ => v.extend([PUSH(1), PUSH(0), DIV()]),
        },
        Role::Check { slot } => {
            v.extend(frag_mem_to_stack());
            v.extend(frag_hash_stack());
            v.extend([PUSH(*slot as Word), PUSH(0), PUSH(4), DATA(), PUSH(4), EQRA()]);
        }
        Role::ReadCheck { spec, slot } => {
            v.extend(read_ops(spec));
            v.extend(frag_mem_to_stack());
            v.extend(frag_hash_stack());
            v.extend([PUSH(*slot as Word), PUSH(0), PUSH(4), DATA(), PUSH(4), EQRA()]);
        }
        Role::DataOut {
            n,
            col0,
            delete_first,
            bad,
            empty_key_last,
        } => {
            v.extend(frag_mem_to_stack());
            v.extend(frag_hash_stack()); // [h0..h3]
            v.extend([POP(), POP(), POP()]); // [h0]
            v.extend(frag_clear_mem());
            // layout: [n, (2, row, col, vlen, value..)*]
            let mut words: Vec<Word> = vec![*n as Word];
            let mut dyn_row: Vec<usize> = Vec::new();
            let mut dyn_h0: Vec<usize> = Vec::new();
            for j in 0..*n {
                words.push(2);
                dyn_row.push(words.len());
                words.push(0); // row = COMPUTED_ROW + uid, patched at run time
                words.push(if *bad == 1 { *col0 } else { col0 + j as Word });
                if j == 0 && *delete_first {
                    words.push(0);
                } else {
                    words.push(if *bad == 3 && j + 1 == *n { -2 } else { 2 });
                    dyn_h0.push(words.len());
                    words.push(0); // h0, patched at run time
                    words.push(t * 64 + j as Word);
                }
            }
            if *empty_key_last {
                words[0] += 1;
                words.extend([0, 0]);
            }
            if *bad == 2 {
                // the last word is missing (the patches below never touch the last word of a
                // value, which is a constant)
                words.pop();
            }
            v.extend(frag_mem_append(&words));
            for ix in dyn_h0 {
                v.extend([DUP(), PUSH(ix as Word), STO()]);
            }
            for ix in dyn_row {
                v.extend([
                    PUSH(COMPUTED_ROW),
                    PUSH(0),
                    PUSH(0),
                    PUSH(1),
                    DATA(),
                    ADD(),
                    PUSH(ix as Word),
                    STO(),
                ]);
            }
            v.push(POP());
            v.push(PUSH(2));
        }
        Role::True => {
            v.extend(frag_clear_stack());
            v.push(PUSH(1));
        }
        Role::LeafShape(k) => {
            v.extend(frag_clear_stack());
            match k {
                0 => v.extend([PUSH(t), PUSH(1)]),
                1 => {
                    v.extend(frag_mem_append(&[0]));
                    v.extend([PUSH(t), PUSH(2)]);
                }
                2 => {}
                3 => v.push(PUSH(0)),
                4 => v.push(PUSH(3)),
                5 => v.extend([PUSH(1), PUSH(1)]),
                6 => v.extend([PUSH(2), PUSH(2)]),
                7 => v.push(PUSH(-1)),
                8 => v.extend([PUSH(1), PUSH(t)]),
                _ => v.extend([PUSH(2), PUSH(0)]),
            }
        }
        Role::Soup(ops) => v.extend(ops.iter().copied()),
    }
    if abs.beacons {
        v.extend(frag_beacon(true, 0, BEACON_ROW + 2 * t + 1));
    }
    v
}

/// Realise the abstract workload under one numbering per predicate.
pub fn realize(abs: &Abstract, numberings: &[Numbering]) -> Workload {
    let mut programs: Vec<Vec<u8>> = Vec::new();
    let mut preds = Vec::new();
    for (pi, p) in abs.preds.iter().enumerate() {
        let num = &numberings[pi];
        let (starts, edges) = graph::encode(&p.dag, num);
        let mut nodes = vec![(0u16, 0usize); p.dag.n()];
        for a in 0..p.dag.n() {
            programs.push(to_bytes(&node_program(abs, pi, a)));
            nodes[num[a]] = (starts[num[a]], programs.len() - 1);
        }
        preds.push(PredDef {
            contract: p.contract,
            nodes,
            edges,
        });
    }
    let sols = abs
        .sols
        .iter()
        .map(|s| {
            let mut data = vec![vec![s.uid]];
            let ns = abs.preds[s.pred].n_slots;
            for j in 1..=ns {
                let mut w = s.slots.get(j - 1).copied().unwrap_or([0; 4]);
                if s.bad_slots.contains(&j) {
                    w[3] ^= 1;
                }
                data.push(w.to_vec());
            }
            SolDef {
                pred: s.pred,
                data,
                muts: s.muts.clone(),
            }
        })
        .collect();
    Workload {
        pre: abs.pre.clone(),
        programs,
        preds,
        sols,
        collect_all: abs.collect_all,
        entry: abs.entry,
        faults: abs.faults.clone(),
        shape: abs.shape.clone(),
        beacons: abs.beacons,
        alias_pred_hash: abs.alias_pred_hash,
        flaky_program: None,
        stale_prelude: abs.stale_prelude && abs.entry != Entry::TwoPass,
        prefix_prelude: abs.prefix_prelude && abs.entry != Entry::TwoPass && abs.sols.len() >= 2,
    }
}

pub fn digest(stack: &[Word], mem: &[Word]) -> [Word; 4] {
    let mut all = stack.to_vec();
    all.extend_from_slice(mem);
    word_4_from_u8_32(essential_hash::hash_words(&all))
}

/// Fill the check slots so that every Check/ReadCheck leaf is satisfied (unless perturbed):
/// run the model with placeholders, read each leaf's input off the model's trace, compute
/// the digest the leaf will compute, store it in the solution's predicate data.
/// Slots only feed leaves, so one round reaches a fixed point.
pub fn finalize(abs: &mut Abstract, numberings: &[Numbering]) {
    crate::hooks::set_op_budget(crate::oracle::OP_BUDGET);
    rayon::sim::set_item_budget(crate::oracle::ITEM_BUDGET);
    rayon::sim::set_mode(rayon::sim::Mode::Sequential);
    for s in abs.sols.iter_mut() {
        s.slots = vec![[0; 4]; abs.preds[s.pred].n_slots];
    }
    let saved_bad: Vec<BTreeSet<usize>> = abs.sols.iter().map(|s| s.bad_slots.clone()).collect();
    let saved_collect = abs.collect_all;
    // evaluate everything even when something fails, so that every reachable leaf gets its slot
    abs.collect_all = true;
    for s in abs.sols.iter_mut() {
        s.bad_slots.clear();
    }
    // two rounds: a leaf in the second pass reads computed mutations whose values depend on
    // first-pass digests, which do not depend on slots; one round is enough, the second is a
    // cheap guard for read-check leaves whose input includes data emitted by other solutions
    for _round in 0..2 {
        let w = realize(abs, numberings);
        let m = w.materialize();
        let out = model::two_pass(&w, &m);
        for (si, s) in abs.sols.iter_mut().enumerate() {
            let p = &abs.preds[s.pred];
            let num = &numberings[s.pred];
            for a in 0..p.dag.n() {
                let slot = match &p.roles[a] {
                    Role::Check { slot } => *slot,
                    Role::ReadCheck { slot, .. } => *slot,
                    _ => continue,
                };
                let ix = num[a];
                let tr = &out.sols[si];
                if let Some((st, me)) = tr.inputs.get(&ix) {
                    let d = match &p.roles[a] {
                        Role::Check { .. } => Some(digest(st, me)),
                        Role::ReadCheck { spec, .. } => {
                            read_check_digest(abs_pre(&w), &out.overlay, &w, si, spec, st, me)
                        }
                        _ => None,
                    };
                    if let Some(d) = d {
                        s.slots[slot - 1] = d;
                    }
                }
            }
        }
    }
    abs.collect_all = saved_collect;
    for (s, b) in abs.sols.iter_mut().zip(saved_bad) {
        s.bad_slots = b;
    }
}

/// The words `PredicateExists` must be given to find solution `t` of the materialised set:
/// SHA-256 over its length-prefixed predicate data slots, contract and predicate address.
fn pex_words(m: &crate::wl::Mat, t: usize) -> [Word; 4] {
    let s = &m.set.solutions[t];
    let mut words: Vec<Word> = Vec::new();
    for slot in &s.predicate_data {
        words.push(slot.len() as Word);
        words.extend_from_slice(slot);
    }
    words.extend(word_4_from_u8_32(s.predicate_to_solve.contract.0));
    words.extend(word_4_from_u8_32(s.predicate_to_solve.predicate.0));
    digest(&words, &[])
}

/// `finalize`, then aim every targeted `PredicateExists` at its solution and settle the slots
/// again. A target is only usable when it solves a *different* predicate (patching the words
/// changes the program, hence the address, of the predicate that contains the op).
pub fn finalize_with_pex(abs: &mut Abstract, numberings: &[Numbering]) {
    finalize(abs, numberings);
    let mut any = false;
    for pi in 0..abs.preds.len() {
        for a in 0..abs.preds[pi].roles.len() {
            if let Role::Pex { target, target2, .. } = &mut abs.preds[pi].roles[a] {
                for tg in [target, target2] {
                    if let Some(t) = *tg {
                        if t >= abs.sols.len() || abs.sols[t].pred == pi {
                            *tg = None;
                        } else {
                            any = true;
                        }
                    }
                }
            }
        }
    }
    if !any {
        return;
    }
    // two rounds: a target's data holds check slots that may themselves sit downstream of
    // another PredicateExists
    for _ in 0..2 {
        let w = realize(abs, numberings);
        let m = w.materialize();
        for pi in 0..abs.preds.len() {
            for a in 0..abs.preds[pi].roles.len() {
                if let Role::Pex { words, target, words2, target2 } = &mut abs.preds[pi].roles[a] {
                    if let Some(t) = target {
                        *words = pex_words(&m, *t);
                    }
                    if let Some(t) = target2 {
                        *words2 = pex_words(&m, *t);
                    }
                }
            }
        }
        finalize(abs, numberings);
    }
}

fn abs_pre(w: &Workload) -> StateMap {
    w.state_map()
}

/// What a ReadCheck leaf hashes: its input, with the memory extended by the room it
/// allocates and the answer written there in the documented layout.
fn read_check_digest(
    pre: StateMap,
    overlay: &StateMap,
    w: &Workload,
    si: usize,
    spec: &ReadSpec,
    st: &[Word],
    me: &[Word],
) -> Option<[Word; 4]> {
    use essential_vm::StateRead;
    let own = w.preds[w.sols[si].pred].contract;
    let c = match &spec.target {
        ReadTarget::Own => own,
        ReadTarget::Extern(c) => *c,
    };
    let bad = model::bad_keys(&w.faults);
    let view = model::ModelView {
        data: &pre,
        overlay: if spec.post { Some(overlay) } else { None },
        bad: &bad,
        sparse: w.faults.iter().any(|f| matches!(f, Fault::Sparse)),
        wrap_error: w.faults.iter().find_map(|f| match f {
            Fault::WrapError { id } => Some(*id),
            _ => None,
        }),
    };
    let vals = view
        .key_range(essential_types::ContentAddress(c), spec.key.clone(), spec.count)
        .ok()?;
    let base = me.len();
    let mut mem = me.to_vec();
    mem.resize(base + spec.room, 0);
    let mut pair = base;
    let mut val = base + 2 * vals.len();
    for v in &vals {
        if val + v.len() > mem.len() || pair + 2 > mem.len() {
            return None; // does not fit: the leaf fails, no slot needed
        }
        mem[pair] = val as Word;
        mem[pair + 1] = v.len() as Word;
        mem[val..val + v.len()].copy_from_slice(v);
        val += v.len();
        pair += 2;
    }
    Some(digest(st, &mem))
}

/// Everything a batch needs for one generated case.
pub struct Case {
    pub abs: Abstract,
    pub numberings: Vec<Numbering>,
    pub w: Workload,
    /// a second realisation under numberings that keep every node's parent order
    pub alt: Option<(Vec<Numbering>, Workload)>,
}

pub fn gen_case(rng: &mut Rng, cfg: &GenCfg, want_alt: bool) -> Case {
    let mut cfg = cfg.clone();
    for _ in 0..4 {
        let c = gen_case_once(rng, &cfg, want_alt);
        // a program that overruns the op budget (endless repeat in op soup) makes the case
        // useless for every oracle: draw again without soup
        let m = c.w.materialize();
        crate::hooks::set_op_budget(crate::oracle::OP_BUDGET);
        rayon::sim::set_item_budget(crate::oracle::ITEM_BUDGET);
        if model::two_pass(&c.w, &m).unusable.is_none() {
            return c;
        }
        cfg.soup = false;
    }
    cfg.compute = false;
    gen_case_once(rng, &cfg, want_alt)
}

fn gen_case_once(rng: &mut Rng, cfg: &GenCfg, want_alt: bool) -> Case {
    let mut abs = gen_abstract(rng, cfg);
    let topo = rng.chance(1, 3);
    let numberings: Vec<Numbering> = abs
        .preds
        .iter()
        .map(|p| graph::random_numbering(rng, &p.dag, topo))
        .collect();
    if want_alt {
        // a predicate's address is a function of its encoding: an op aimed at an address would
        // legitimately behave differently under the second numbering
        finalize(&mut abs, &numberings);
    } else {
        finalize_with_pex(&mut abs, &numberings);
    }
    let w = realize(&abs, &numberings);
    let alt = if want_alt {
        let mut alts = Vec::new();
        let mut ok = true;
        for (pi, p) in abs.preds.iter().enumerate() {
            let mut found = None;
            for _ in 0..16 {
                let n2 = graph::random_numbering(rng, &p.dag, false);
                if n2 != numberings[pi] && graph::same_parent_order(&p.dag, &numberings[pi], &n2) {
                    found = Some(n2);
                    break;
                }
            }
            match found {
                Some(n2) => alts.push(n2),
                None => {
                    ok = false;
                    alts.push(numberings[pi].clone());
                }
            }
        }
        if ok || alts != numberings {
            let w2 = realize(&abs, &alts);
            Some((alts, w2))
        } else {
            None
        }
    } else {
        None
    };
    Case {
        abs,
        numberings,
        w,
        alt,
    }
}

/// Keys read by the workload's programs that no solution mutates: candidates for F1.
pub fn fault_candidates(abs: &Abstract) -> Vec<(CA, Key)> {
    let mutated: BTreeSet<(CA, Key)> = abs
        .sols
        .iter()
        .flat_map(|s| {
            let c = abs.preds[s.pred].contract;
            s.muts.iter().map(move |(k, _)| (c, k.clone()))
        })
        .collect();
    // contracts in which some data output deletes the zero-length key at run time
    let empty_key_computed: BTreeSet<CA> = abs
        .preds
        .iter()
        .filter(|p| p.roles.iter().any(|r| matches!(r, Role::DataOut { empty_key_last: true, .. })))
        .map(|p| p.contract)
        .collect();
    let mut out = Vec::new();
    for p in &abs.preds {
        for r in &p.roles {
            let spec = match r {
                Role::Read(s) => s,
                Role::ReadCheck { spec, .. } => spec,
                _ => continue,
            };
            if spec.count == 0 {
                continue;
            }
            let c = match &spec.target {
                ReadTarget::Own => p.contract,
                ReadTarget::Extern(c) => *c,
            };
            let mut k = spec.key.clone();
            for _ in 0..spec.count {
                // computed-mutation rows are mutated at run time: never make them bad
                let computed_row = k.len() == 2 && k[0] >= COMPUTED_ROW && k[0] < COMPUTED_ROW + 100_000;
                // … nor any other key the set proposes a value for: whether the device is asked at
                // all for such a key is not fixed by any statement
                let computed_empty = k.is_empty() && empty_key_computed.contains(&c);
                if !computed_row && !computed_empty && !mutated.contains(&(c, k.clone())) {
                    out.push((c, k.clone()));
                }
                match crate::store::next_key(k) {
                    Some(n) => k = n,
                    None => break,
                }
            }
        }
    }
    out
}

pub type SlotMap = BTreeMap<usize, [Word; 4]>;

/// Raw-encoding mutation: turn a well-formed predicate encoding into whatever the slicing
/// rule makes of arbitrary `edge_start`/`edges` arrays — dangling targets, self-loops,
/// back edges (cycles), decreasing or out-of-range starts, truncated edge lists.
/// Returns a label of what was done.
pub fn corrupt_graph(rng: &mut Rng, w: &mut Workload) -> &'static str {
    let pi = rng.usize(w.preds.len());
    let p = &mut w.preds[pi];
    let n = p.nodes.len();
    match rng.below(8) {
        0 if !p.edges.is_empty() => {
            let e = rng.usize(p.edges.len());
            p.edges[e] = (n + rng.usize(3)) as u16;
            "dangling-edge"
        }
        1 if !p.edges.is_empty() => {
            // point an edge back at its own source or an ancestor-ish index
            let e = rng.usize(p.edges.len());
            let src = (0..n)
                .find(|&i| {
                    graph::node_slice(&p.nodes.iter().map(|x| x.0).collect::<Vec<_>>(), p.edges.len(), i)
                        .map(|(a, b)| a <= e && e < b)
                        .unwrap_or(false)
                })
                .unwrap_or(0);
            p.edges[e] = src as u16;
            "self-loop"
        }
        2 if !p.edges.is_empty() => {
            let e = rng.usize(p.edges.len());
            p.edges[e] = rng.usize(n) as u16;
            "random-retarget"
        }
        3 if n >= 2 => {
            let (a, b) = (rng.usize(n), rng.usize(n));
            let t = p.nodes[a].0;
            p.nodes[a].0 = p.nodes[b].0;
            p.nodes[b].0 = t;
            "swap-edge-starts"
        }
        4 => {
            let a = rng.usize(n);
            p.nodes[a].0 = (p.edges.len() + 1 + rng.usize(3)) as u16;
            "start-out-of-range"
        }
        5 => {
            let a = rng.usize(n);
            p.nodes[a].0 = if p.nodes[a].0 == graph::LEAF {
                rng.usize(p.edges.len() + 1) as u16
            } else {
                graph::LEAF
            };
            "toggle-leaf-marker"
        }
        6 if !p.edges.is_empty() => {
            let k = 1 + rng.usize(p.edges.len());
            p.edges.truncate(p.edges.len() - k);
            "truncate-edges"
        }
        _ => {
            p.edges.push(rng.usize(n + 1) as u16);
            "extra-edge"
        }
    }
}
