//! C06: checker and decoders are total on untrusted input.
//!
//! Untrusted bytes enter through the stores. A *valid* stored artefact is corrupted the way
//! storage corrupts things (F7: truncation at an offset, a flipped bit, a duplicated,
//! dropped or zeroed chunk — offsets and bits enumerated exhaustively for short artefacts),
//! programs emit hostile data outputs, graphs are arbitrary arrays, and programs choose
//! hostile read counts (F5). The oracle: a value or a typed error within the step budget —
//! no panic out of a /repo entry point, no process abort (allocation failure), no
//! attacker-sized allocation, no attacker-sized amount of work.

use crate::driver::{BatchPlan, CaseOut, KnownFinding, PropText};
use crate::gen::{self, GenCfg};
use crate::oracle::{self, finding, ExecInfo, Finding};
use crate::ops::*;
use crate::rng::{derive, label, Rng};
use crate::runner::SchedSpec;
use crate::wl::{Entry, PredDef, SolDef, Workload};
use essential_types::{
    predicate::Predicate,
    solution::{decode, Mutation},
    Key, Word,
};
use serde::{Deserialize, Serialize};
use serde_json::{json, Value as Json};
use std::sync::atomic::{AtomicUsize, Ordering};
use std::sync::Arc;

/// Largest single allocation request seen since the last reset (seam S6; fed by the
/// binary's `#[global_allocator]`).
pub static MAX_ALLOC_REQUEST: AtomicUsize = AtomicUsize::new(0);
/// A single request above this is attacker-sized: the legitimate working set of a check is
/// bounded by the VM limits (80 KiB memory, 32 KiB stack per VM).
pub const OVERSIZE: usize = 1 << 30;

#[derive(Clone, Debug, Serialize, Deserialize, PartialEq)]
pub enum C06Scenario {
    /// corrupted encoded predicate: decode, validate, and if valid run it through the checker
    PredicateBytes { bytes: Vec<u8> },
    /// corrupted encoded mutation list
    MutationWords { words: Vec<Word> },
    /// corrupted program bytes: parse, map, and run as a node program
    ProgramBytes { bytes: Vec<u8> },
    /// a data-output leaf whose memory is `memory`
    LeafOutput { memory: Vec<Word>, second_pass: bool },
    /// arbitrary graph arrays over trivial programs
    RawGraph { starts: Vec<u16>, edges: Vec<u16>, collect_all: bool },
    /// set validation on sets at and beyond every limit: (solutions, slots, slot words, mutations
    /// per solution, key words, value words, duplicate keys)
    SetValidation {
        n_sols: usize,
        n_slots: usize,
        slot_words: usize,
        n_muts: usize,
        key_words: usize,
        value_words: usize,
        dup_key: bool,
    },
    /// contract validation with an untrusted signature: `sig` (64 bytes) and recovery id
    SignedContract {
        preds: Vec<(Vec<u16>, Vec<u16>)>,
        salt: u8,
        sig: Vec<u8>,
        rec_id: u8,
    },
    /// a program-chosen read count against a contract with or without proposed mutations
    HostileRead {
        post: bool,
        ext: bool,
        count: Word,
        key: Key,
        mutated_contract: bool,
        /// the device leaves out missing keys (short answers)
        #[serde(default)]
        sparse: bool,
    },
}

const CONTRACT: [u8; 32] = [0xC6; 32];
const OTHER: [u8; 32] = [0x6C; 32];

fn single_leaf_workload(program: Vec<u8>, muts: Vec<(Key, Vec<Word>)>) -> Workload {
    Workload {
        pre: vec![(CONTRACT, vec![1], vec![11]), (OTHER, vec![1], vec![22])],
        programs: vec![program],
        preds: vec![PredDef {
            contract: CONTRACT,
            nodes: vec![(u16::MAX, 0)],
            edges: vec![],
        }],
        sols: vec![SolDef {
            pred: 0,
            data: vec![vec![1]],
            muts,
        }],
        collect_all: false,
        entry: Entry::TwoPass,
        faults: vec![],
        shape: "c06".into(),
        beacons: false,
        stale_prelude: false,
        prefix_prelude: false,
        alias_pred_hash: false,
        flaky_program: None,
    }
}

fn run_workload(w: Workload) -> (Option<Finding>, ExecInfo) {
    let rr = oracle::run_real(&Arc::new(w), &SchedSpec::sequential(), false);
    let f = match &rr.verdict {
        Ok(_) => None,
        Err(f) if f.class == "budget" => Some(finding(
            "unbounded-work",
            "the check did not return within the op / item budget",
        )),
        Err(f) => Some(f.clone()),
    };
    let f = f.or_else(|| {
        if rr.info.faults.budget > 0 {
            Some(finding(
                "unbounded-work",
                format!("one check made more than {} device calls", oracle::DEVICE_CALL_BUDGET),
            ))
        } else {
            None
        }
    });
    (f, rr.info)
}

fn guard<R>(what: &str, f: impl FnOnce() -> R) -> Result<R, Finding> {
    crate::runner::catch(f).map_err(|p| {
        if p.location.contains("/verif/sim/") {
            finding("harness-error", format!("{} at {}", p.message, p.location))
        } else {
            finding(
                "panic",
                format!("{what}: panic: {} at {} [{}]", p.message, p.location, p.system_frame.unwrap_or_default()),
            )
        }
    })
}

pub fn evaluate(sc: &C06Scenario) -> (Option<Finding>, Vec<ExecInfo>, u64) {
    MAX_ALLOC_REQUEST.store(0, Ordering::Relaxed);
    let mut infos = Vec::new();
    let mut evals = 0u64;
    let mut f: Option<Finding> = None;
    match sc {
        C06Scenario::PredicateBytes { bytes } => {
            evals += 1;
            match guard("Predicate::decode", || Predicate::decode(bytes)) {
                Err(e) => f = Some(e),
                Ok(Err(_)) => {}
                Ok(Ok(p)) => {
                    let valid = guard("predicate::check", || essential_check::predicate::check(&p).is_ok());
                    match valid {
                        Err(e) => f = Some(e),
                        Ok(false) => {}
                        Ok(true) => {
                            // node_edges on every index, then the checker itself (programs: whatever the
                            // addresses resolve to — here one trivial program for every node)
                            if let Err(e) = guard("Predicate::node_edges", || {
                                for i in 0..p.nodes.len() + 2 {
                                    let _ = p.node_edges(i);
                                }
                            }) {
                                f = Some(e);
                            } else {
                                let w = Workload {
                                    preds: vec![PredDef {
                                        contract: CONTRACT,
                                        nodes: p.nodes.iter().map(|n| (n.edge_start, 0)).collect(),
                                        edges: p.edges.clone(),
                                    }],
                                    ..single_leaf_workload(to_bytes(&[PUSH(1)]), vec![])
                                };
                                let (ff, info) = run_workload(w);
                                infos.push(info);
                                f = ff;
                            }
                        }
                    }
                }
            }
        }
        C06Scenario::MutationWords { words } => {
            evals += 2;
            if let Err(e) = guard("decode_mutations", || {
                let _ = decode::decode_mutations(words);
            }) {
                f = Some(e);
            } else if let Err(e) = guard("Mutation::decode_mutation", || {
                let _ = Mutation::decode_mutation(words);
            }) {
                f = Some(e);
            }
        }
        C06Scenario::ProgramBytes { bytes } => {
            evals += 2;
            if let Err(e) = guard("asm::from_bytes", || {
                let _ = from_bytes(bytes);
            }) {
                f = Some(e);
            } else if let Err(e) = guard("BytecodeMapped::try_from", || {
                let _ = essential_vm::BytecodeMapped::try_from(bytes.clone());
                let _ = essential_vm::BytecodeMapped::try_from_bytes(&bytes[..]);
            }) {
                f = Some(e);
            } else {
                let (ff, info) = run_workload(single_leaf_workload(bytes.clone(), vec![]));
                infos.push(info);
                f = ff;
            }
        }
        C06Scenario::LeafOutput { memory, second_pass } => {
            let mut ops = Vec::new();
            if *second_pass {
                // a post-state read makes the leaf run in the checks pass
                ops.extend([PUSH(4), ALOC(), POP(), PUSH(1), PUSH(1), PUSH(1), PUSH(0), PKRNG()]);
                ops.extend(frag_clear_mem());
            }
            for chunk in memory.chunks(200) {
                ops.extend(frag_mem_append(chunk));
            }
            ops.push(PUSH(2));
            let (ff, info) = run_workload(single_leaf_workload(to_bytes(&ops), vec![]));
            infos.push(info);
            f = ff;
        }
        C06Scenario::RawGraph { starts, edges, collect_all } => {
            let mut w = single_leaf_workload(to_bytes(&[PUSH(1)]), vec![]);
            w.programs.push(to_bytes(&[PUSH(7)]));
            w.preds[0].nodes = starts.iter().enumerate().map(|(i, s)| (*s, i % 2)).collect();
            w.preds[0].edges = edges.clone();
            w.collect_all = *collect_all;
            let (ff, info) = run_workload(w);
            infos.push(info);
            f = ff;
        }
        C06Scenario::SetValidation {
            n_sols,
            n_slots,
            slot_words,
            n_muts,
            key_words,
            value_words,
            dup_key,
        } => {
            evals += 3;
            use essential_types::solution::{Solution, SolutionSet};
            let set = SolutionSet {
                solutions: (0..*n_sols)
                    .map(|i| Solution {
                        predicate_to_solve: essential_types::PredicateAddress {
                            contract: essential_types::ContentAddress(CONTRACT),
                            predicate: essential_types::ContentAddress([i as u8; 32]),
                        },
                        predicate_data: (0..*n_slots).map(|_| vec![1; *slot_words]).collect(),
                        state_mutations: (0..*n_muts)
                            .map(|j| Mutation {
                                key: {
                                    let mut k = vec![0; *key_words];
                                    if let Some(l) = k.last_mut() {
                                        *l = if *dup_key { 0 } else { j as Word };
                                    }
                                    k
                                },
                                value: vec![2; *value_words],
                            })
                            .collect(),
                    })
                    .collect(),
            };
            if let Err(e) = guard("solution::check_set", || {
                let _ = essential_check::solution::check_set(&set);
                let _ = essential_check::solution::check_solutions(&set.solutions);
                let _ = essential_check::solution::check_set_state_mutations(&set);
            }) {
                f = Some(e);
            }
        }
        C06Scenario::SignedContract { preds, salt, sig, rec_id } => {
            evals += 2;
            let predicates: Vec<Predicate> = preds
                .iter()
                .map(|(starts, edges)| Predicate {
                    nodes: starts
                        .iter()
                        .map(|s| essential_types::predicate::Node {
                            edge_start: *s,
                            program_address: essential_types::ContentAddress([*salt; 32]),
                        })
                        .collect(),
                    edges: edges.clone(),
                })
                .collect();
            let mut sb = [0u8; 64];
            for (i, b) in sig.iter().take(64).enumerate() {
                sb[i] = *b;
            }
            let sc = essential_types::contract::SignedContract {
                contract: essential_types::contract::Contract {
                    predicates: predicates.clone(),
                    salt: [*salt; 32],
                },
                signature: essential_types::Signature(sb, *rec_id),
            };
            if let Err(e) = guard("predicate::check_contract", || {
                let _ = essential_check::predicate::check_contract(&predicates);
            }) {
                f = Some(e);
            } else if let Err(e) = guard("predicate::check_signed_contract", || {
                let _ = essential_check::predicate::check_signed_contract(&sc);
            }) {
                f = Some(e);
            }
        }
        C06Scenario::HostileRead {
            post,
            ext,
            count,
            key,
            mutated_contract,
            sparse,
        } => {
            let target = if *ext { OTHER } else { CONTRACT };
            let mut ops = vec![PUSH(16), ALOC(), POP()];
            if *ext {
                for w in essential_types::convert::word_4_from_u8_32(target) {
                    ops.push(PUSH(w));
                }
            }
            for k in key {
                ops.push(PUSH(*k));
            }
            ops.extend([PUSH(key.len() as Word), PUSH(*count), PUSH(0)]);
            ops.push(match (*ext, *post) {
                (false, false) => KRNG(),
                (false, true) => PKRNG(),
                (true, false) => KREX(),
                (true, true) => PKREX(),
            });
            ops.extend(frag_clear_stack());
            ops.push(PUSH(1));
            let mut w = single_leaf_workload(to_bytes(&ops), vec![]);
            if *mutated_contract {
                // the contract being read has a proposed mutation (declared by a solution of it)
                if *ext {
                    w.programs.push(to_bytes(&[PUSH(1)]));
                    w.preds.push(PredDef {
                        contract: OTHER,
                        nodes: vec![(u16::MAX, 1)],
                        edges: vec![],
                    });
                    w.sols.push(SolDef {
                        pred: 1,
                        data: vec![vec![2]],
                        muts: vec![(vec![9, 9], vec![5])],
                    });
                } else {
                    w.sols[0].muts.push((vec![9, 9], vec![5]));
                }
            }
            if *sparse {
                w.faults.push(crate::store::Fault::Sparse);
            }
            let (ff, info) = run_workload(w);
            infos.push(info);
            f = ff;
        }
    }
    let biggest = MAX_ALLOC_REQUEST.load(Ordering::Relaxed);
    if f.is_none() && biggest > OVERSIZE {
        f = Some(finding(
            "oversize-allocation",
            format!("a single allocation request of {biggest} bytes was made (attacker-sized)"),
        ));
    }
    (f, infos, evals)
}

// ---------------------------------------------------------------------------------
// generation

const BOUNDARY: [Word; 8] = [-1, 0, 1, 2, 3, 5, Word::MAX, Word::MIN];

fn valid_predicate_bytes(rng: &mut Rng) -> Vec<u8> {
    let n = 1 + rng.usize(5);
    let dag = crate::graph::Dag::random(rng, n);
    let num = crate::graph::random_numbering(rng, &dag, false);
    let (starts, edges) = crate::graph::encode(&dag, &num);
    let p = Predicate {
        nodes: starts
            .iter()
            .map(|s| essential_types::predicate::Node {
                edge_start: *s,
                program_address: essential_types::ContentAddress([rng.below(3) as u8; 32]),
            })
            .collect(),
        edges,
    };
    p.encode().expect("within limits").collect()
}

fn valid_mutation_words(rng: &mut Rng) -> Vec<Word> {
    let n = rng.usize(4);
    let ms: Vec<Mutation> = (0..n)
        .map(|_| Mutation {
            key: (0..rng.usize(3)).map(|_| rng.range(0, 9)).collect(),
            value: (0..rng.usize(4)).map(|_| rng.range(0, 9)).collect(),
        })
        .collect();
    essential_types::solution::encode::encode_mutations(&ms).collect()
}

fn valid_program_bytes(rng: &mut Rng) -> Vec<u8> {
    let n = 1 + rng.usize(10);
    to_bytes(&gen::soup(rng, n))
}

fn corrupt_bytes(rng: &mut Rng, mut b: Vec<u8>) -> Vec<u8> {
    if b.is_empty() {
        return vec![rng.below(256) as u8];
    }
    match rng.below(6) {
        0 => {
            let o = rng.usize(b.len());
            b.truncate(o);
        }
        1 => {
            let i = rng.usize(b.len());
            b[i] ^= 1 << rng.below(8);
        }
        2 => {
            let a = rng.usize(b.len());
            let l = 1 + rng.usize(8.min(b.len() - a));
            let chunk: Vec<u8> = b[a..a + l].to_vec();
            let at = rng.usize(b.len() + 1);
            for (i, c) in chunk.into_iter().enumerate() {
                b.insert(at + i, c);
            }
        }
        3 => {
            let a = rng.usize(b.len());
            let l = 1 + rng.usize(8.min(b.len() - a));
            b.drain(a..a + l);
        }
        4 => {
            let a = rng.usize(b.len());
            let l = 1 + rng.usize(8.min(b.len() - a));
            for x in &mut b[a..a + l] {
                *x = 0;
            }
        }
        _ => {
            let i = rng.usize(b.len());
            b[i] = 0xFF;
        }
    }
    b
}

fn corrupt_words(rng: &mut Rng, mut w: Vec<Word>) -> Vec<Word> {
    if w.is_empty() {
        return vec![*rng.pick(&BOUNDARY)];
    }
    match rng.below(6) {
        0 => {
            let o = rng.usize(w.len());
            w.truncate(o);
        }
        1 => {
            let i = rng.usize(w.len());
            w[i] ^= 1 << rng.below(64);
        }
        2 => {
            let i = rng.usize(w.len());
            w[i] = *rng.pick(&BOUNDARY);
        }
        3 => {
            let i = rng.usize(w.len());
            w[i] = w.len() as Word + rng.range(-2, 2);
        }
        4 => {
            let i = rng.usize(w.len());
            w.remove(i);
        }
        _ => {
            let i = rng.usize(w.len() + 1);
            w.insert(i, *rng.pick(&BOUNDARY));
        }
    }
    w
}

/// Enumeration batches: the case index *is* the corruption (exhaustive over a closed set).
fn enum_case(batch: &str, case: u64) -> Option<C06Scenario> {
    match batch {
        // every word string of length 1..=4 over the boundary set, as a data output (both passes)
        "c06-enum-output" => {
            let vals: [Word; 8] = [-1, 0, 1, 2, 3, 4, Word::MAX, 5];
            let second = case % 2 == 1;
            let mut c = case / 2;
            // lengths 1..4: 8 + 64 + 512 + 4096 = 4680
            let mut len = 1;
            let mut span = 8u64;
            while c >= span {
                c -= span;
                len += 1;
                span *= 8;
                if len > 4 {
                    return None;
                }
            }
            let mut m = Vec::new();
            for _ in 0..len {
                m.push(vals[(c % 8) as usize]);
                c /= 8;
            }
            Some(C06Scenario::LeafOutput {
                memory: m,
                second_pass: second,
            })
        }
        // every truncation offset and every single-bit flip of a fixed valid encoded predicate
        "c06-enum-predicate" => {
            let mut r = Rng::new(0xC06);
            let b = valid_predicate_bytes(&mut r);
            let n = b.len() as u64;
            if case <= n {
                Some(C06Scenario::PredicateBytes {
                    bytes: b[..case as usize].to_vec(),
                })
            } else if case - n - 1 < n * 8 {
                let k = case - n - 1;
                let mut c = b.clone();
                c[(k / 8) as usize] ^= 1 << (k % 8);
                Some(C06Scenario::PredicateBytes { bytes: c })
            } else {
                None
            }
        }
        // every truncation and boundary substitution of a fixed valid mutation list
        "c06-enum-mutations" => {
            let mut r = Rng::new(0xC06A);
            let mut w = valid_mutation_words(&mut r);
            while w.len() < 6 {
                w = valid_mutation_words(&mut r);
            }
            let n = w.len() as u64;
            if case <= n {
                Some(C06Scenario::MutationWords {
                    words: w[..case as usize].to_vec(),
                })
            } else if case - n - 1 < n * 8 {
                let k = case - n - 1;
                let mut c = w.clone();
                c[(k / 8) as usize] = BOUNDARY[(k % 8) as usize];
                Some(C06Scenario::MutationWords { words: c })
            } else {
                None
            }
        }
        // hostile counts x views x contracts
        "c06-enum-read" => {
            let counts: [Word; 12] = [0, 1, 5119, 5120, 5121, 1 << 15, (1 << 15) + 1, 1 << 31, 1 << 40, 1 << 62, Word::MAX, Word::MAX - 1];
            let keys: [&[Word]; 4] = [&[], &[9, 9], &[Word::MAX], &[9, Word::MAX - 1]];
            let c = case;
            let count = counts[(c % 12) as usize];
            let key = keys[((c / 12) % 4) as usize].to_vec();
            let flags = (c / 48) % 16;
            if c >= 48 * 16 {
                return None;
            }
            Some(C06Scenario::HostileRead {
                post: flags & 1 == 1,
                ext: flags & 2 == 2,
                mutated_contract: flags & 4 == 4,
                sparse: flags & 8 == 8,
                count,
                key,
            })
        }
        _ => None,
    }
}

pub fn scenario_for(batch: &str, case: u64, run_seed: u64) -> Option<C06Scenario> {
    if batch.starts_with("c06-enum-") {
        return enum_case(batch, case);
    }
    let mut rng = Rng::new(derive(run_seed, &[label("workload")]));
    Some(match batch {
        "c06-corrupt" => match rng.below(3) {
            0 => {
                let mut b = valid_predicate_bytes(&mut rng);
                for _ in 0..(1 + rng.usize(2)) {
                    b = corrupt_bytes(&mut rng, b);
                }
                C06Scenario::PredicateBytes { bytes: b }
            }
            1 => {
                let mut w = valid_mutation_words(&mut rng);
                for _ in 0..(1 + rng.usize(2)) {
                    w = corrupt_words(&mut rng, w);
                }
                C06Scenario::MutationWords { words: w }
            }
            _ => {
                let mut b = valid_program_bytes(&mut rng);
                for _ in 0..(1 + rng.usize(2)) {
                    b = corrupt_bytes(&mut rng, b);
                }
                C06Scenario::ProgramBytes { bytes: b }
            }
        },
        "c06-output" => {
            // longer hostile outputs: a valid list, corrupted, or boundary noise
            let w = if rng.chance(1, 2) {
                let mut w = valid_mutation_words(&mut rng);
                for _ in 0..(1 + rng.usize(3)) {
                    w = corrupt_words(&mut rng, w);
                }
                w
            } else {
                (0..(1 + rng.usize(12))).map(|_| *rng.pick(&BOUNDARY)).collect()
            };
            C06Scenario::LeafOutput {
                memory: w,
                second_pass: rng.chance(1, 3),
            }
        }
        "c06-graph" => {
            let n = 1 + rng.usize(8);
            let n_edges = rng.usize(12);
            let starts: Vec<u16> = (0..n)
                .map(|_| match rng.below(4) {
                    0 => u16::MAX,
                    1 => rng.below(n_edges as u64 + 3) as u16,
                    _ => rng.below(n_edges as u64 + 1) as u16,
                })
                .collect();
            let edges: Vec<u16> = (0..n_edges)
                .map(|_| if rng.chance(1, 10) { n as u16 + rng.below(3) as u16 } else { rng.below(n as u64) as u16 })
                .collect();
            C06Scenario::RawGraph {
                starts,
                edges,
                collect_all: rng.chance(1, 2),
            }
        }
        "c06-contract" if rng.chance(1, 2) => {
            let lim = |rng: &mut Rng, limit: usize| -> usize {
                match rng.below(6) {
                    0 => limit,
                    1 => limit + 1,
                    2 => limit.saturating_sub(1),
                    3 => 0,
                    _ => rng.usize(4),
                }
            };
            let n_sols = lim(&mut rng, 100).min(101);
            C06Scenario::SetValidation {
                n_sols,
                n_slots: lim(&mut rng, 100).min(101),
                slot_words: if n_sols <= 3 { lim(&mut rng, 10_000) } else { rng.usize(3) },
                n_muts: if n_sols <= 2 { lim(&mut rng, 1000) } else { rng.usize(12) },
                key_words: if n_sols <= 2 { lim(&mut rng, 1000) } else { rng.usize(3) },
                value_words: if n_sols <= 2 { lim(&mut rng, 10_000).min(10_001) } else { rng.usize(3) },
                dup_key: rng.chance(1, 4),
            }
        }
        "c06-contract" => {
            let n_preds = match rng.below(8) {
                0 => 0,
                1 => 100 + rng.usize(3),
                _ => 1 + rng.usize(4),
            };
            let preds = (0..n_preds)
                .map(|_| {
                    let n = match rng.below(12) {
                        0 => 999 + rng.usize(4),
                        _ => rng.usize(6),
                    };
                    let ne = match rng.below(12) {
                        0 => 999 + rng.usize(4),
                        _ => rng.usize(8),
                    };
                    (
                        (0..n).map(|_| if rng.chance(1, 3) { u16::MAX } else { rng.below(ne as u64 + 2) as u16 }).collect(),
                        (0..ne).map(|_| rng.below(n as u64 + 2) as u16).collect(),
                    )
                })
                .collect();
            C06Scenario::SignedContract {
                preds,
                salt: rng.below(4) as u8,
                sig: match rng.below(4) {
                    0 => vec![0; 64],
                    1 => vec![0xFF; 64],
                    _ => (0..64).map(|_| rng.below(256) as u8).collect(),
                },
                rec_id: match rng.below(3) {
                    0 => rng.below(4) as u8,
                    _ => rng.below(256) as u8,
                },
            }
        }
        "c06-read" => C06Scenario::HostileRead {
            post: rng.chance(1, 2),
            ext: rng.chance(1, 2),
            mutated_contract: rng.chance(1, 2),
            count: match rng.below(6) {
                0 => Word::MAX - rng.range(0, 3),
                1 => 1 << rng.range(20, 62),
                2 => rng.range(5000, 40000),
                _ => rng.range(0, 20),
            },
            key: (0..rng.usize(3)).map(|_| if rng.chance(1, 4) { Word::MAX } else { rng.range(0, 12) }).collect(),
            sparse: rng.chance(1, 3),
        },
        _ => return None,
    })
}

// also exercised: the C01 generator's corrupted workloads with every program replaced by soup
pub fn soup_workload(rng: &mut Rng) -> Workload {
    let mut cfg = GenCfg::swarm(rng);
    cfg.soup = true;
    cfg.beacons = false;
    let mut c = gen::gen_case(rng, &cfg, false);
    for _ in 0..rng.usize(3) {
        gen::corrupt_graph(rng, &mut c.w);
    }
    if rng.chance(1, 5) && !c.w.programs.is_empty() {
        // an inconsistent program store: the second lookup of one program (the one made to
        // execute it) returns a version that also reads the post state
        let i = rng.usize(c.w.programs.len());
        let mut ops = gen::read_ops(&gen::ReadSpec {
            post: true,
            target: gen::ReadTarget::Own,
            key: vec![rng.range(0, 3)],
            count: 1 + rng.usize(2),
            room: 12,
        });
        ops.extend(crate::ops::from_bytes(&c.w.programs[i]).unwrap_or_default());
        c.w.flaky_program = Some((i, crate::ops::to_bytes(&ops)));
    }
    c.w
}

// ---------------------------------------------------------------------------------
// family glue

pub fn plan(_prop: &str, tier: &str) -> Vec<BatchPlan> {
    let q = tier != "thorough";
    let mk = |name: &str, quick: u64, thorough: u64| BatchPlan {
        name: name.to_string(),
        cases: if q { quick } else { thorough },
        faulty: true,
    };
    vec![
        // closed sets: always complete
        mk("c06-enum-output", 9360, 9360),
        mk("c06-enum-predicate", 2000, 2000),
        mk("c06-enum-mutations", 400, 400),
        mk("c06-enum-read", 768, 768),
        mk("c06-corrupt", 120_000, 8_000_000),
        mk("c06-output", 30_000, 2_000_000),
        mk("c06-graph", 30_000, 2_000_000),
        mk("c06-read", 6_000, 300_000),
        mk("c06-contract", 6_000, 300_000),
        mk("c06-soup", 6_000, 600_000),
    ]
}

#[derive(Clone, Debug, Serialize, Deserialize)]
pub enum C06Payload {
    C06(C06Scenario),
    C06Workload(Workload),
}

pub fn run_case(_prop: &str, batch: &str, run_seed: u64) -> CaseOut {
    let mut out = CaseOut::default();
    // enumeration batches are indexed by the case number, which the driver folds into the seed:
    // recover it from the dedicated argument channel
    let case = CASE_INDEX.with(|c| c.get());
    if batch == "c06-soup" {
        let mut rng = Rng::new(derive(run_seed, &[label("workload")]));
        let w = soup_workload(&mut rng);
        out.shape_hash = label(&format!("{:?}", w.preds));
        let rr = oracle::run_real(&Arc::new(w.clone()), &SchedSpec::sequential(), false);
        out.extra_nontrivial.push(derive(out.shape_hash, &[rr.info.event_hash]));
        out.infos.push(rr.info);
        if let Err(f) = rr.verdict {
            if f.class != "budget" {
                out.findings
                    .push((f, serde_json::to_value(C06Payload::C06Workload(w)).unwrap()));
            }
        }
        return out;
    }
    let Some(sc) = scenario_for(batch, case, run_seed) else {
        return out;
    };
    out.shape_hash = label(&format!("{sc:?}"));
    let (f, infos, evals) = evaluate(&sc);
    out.extra_evaluations = evals;
    out.extra_nontrivial.push(out.shape_hash);
    out.sample = Some(serde_json::to_value(&sc).unwrap());
    out.infos = infos;
    if let Some(f) = f {
        out.findings
            .push((f, serde_json::to_value(C06Payload::C06(sc)).unwrap()));
    }
    out
}

thread_local! {
    /// case index of the case being run (set by the driver before `run_case`)
    pub static CASE_INDEX: std::cell::Cell<u64> = const { std::cell::Cell::new(0) };
}

pub fn replay(payload: &Json) -> Result<Option<Finding>, String> {
    match serde_json::from_value::<C06Payload>(payload.clone()).map_err(|e| e.to_string())? {
        C06Payload::C06(sc) => Ok(evaluate(&sc).0),
        C06Payload::C06Workload(w) => {
            let rr = oracle::run_real(&Arc::new(w), &SchedSpec::sequential(), false);
            Ok(rr.verdict.err().filter(|f| f.class != "budget"))
        }
    }
}

pub fn shrink_payload(payload: &Json, class: &str) -> (Json, Json) {
    let Ok(p) = serde_json::from_value::<C06Payload>(payload.clone()) else {
        return (payload.clone(), json!({"minimised": false}));
    };
    let repro = |sc: &C06Scenario| evaluate(sc).0.map(|f| f.class == class).unwrap_or(false);
    match p {
        C06Payload::C06Workload(w) => {
            let sc = crate::props::Scenario::Determinism {
                w,
                spec: SchedSpec::sequential(),
            };
            // reuse the workload shrinker through a checker scenario that fails the same way
            let _ = sc;
            (payload.clone(), json!({"minimised": false, "why": "soup workloads are reported as found"}))
        }
        C06Payload::C06(sc) => {
            let mut cur = sc.clone();
            let mut tried = 0;
            let mut progress = true;
            while progress {
                progress = false;
                let cands: Vec<C06Scenario> = match &cur {
                    C06Scenario::PredicateBytes { bytes } | C06Scenario::ProgramBytes { bytes } => (0..bytes.len())
                        .map(|i| {
                            let mut b = bytes.clone();
                            b.remove(i);
                            match &cur {
                                C06Scenario::PredicateBytes { .. } => C06Scenario::PredicateBytes { bytes: b },
                                _ => C06Scenario::ProgramBytes { bytes: b },
                            }
                        })
                        .collect(),
                    C06Scenario::MutationWords { words } => (0..words.len())
                        .map(|i| {
                            let mut w = words.clone();
                            w.remove(i);
                            C06Scenario::MutationWords { words: w }
                        })
                        .collect(),
                    C06Scenario::LeafOutput { memory, second_pass } => (0..memory.len())
                        .map(|i| {
                            let mut w = memory.clone();
                            w.remove(i);
                            C06Scenario::LeafOutput {
                                memory: w,
                                second_pass: *second_pass,
                            }
                        })
                        .collect(),
                    _ => vec![],
                };
                for c in cands {
                    tried += 1;
                    if repro(&c) {
                        cur = c;
                        progress = true;
                        break;
                    }
                }
            }
            (
                serde_json::to_value(C06Payload::C06(cur)).unwrap(),
                json!({"minimised": true, "candidates_tried": tried}),
            )
        }
    }
}

pub fn known(prop: &str, payload: &Json, class: &str, known: &[KnownFinding]) -> Option<String> {
    let Ok(C06Payload::C06(sc)) = serde_json::from_value::<C06Payload>(payload.clone()) else {
        return None;
    };
    for k in known.iter().filter(|k| k.property == prop && k.status == "known") {
        let hit = match k.matcher.as_str() {
            // a post-state read with a program-chosen count on a contract that has a proposed
            // mutation walks the whole count key by key
            "post-read-count-unbounded" => {
                class == "unbounded-work"
                    && matches!(&sc, C06Scenario::HostileRead { post: true, mutated_contract: true, count, .. } if *count > 100_000)
            }
            // the checker runs node programs with GasLimit::UNLIMITED: a program that loops on its
            // own (checked here by running it alone in the VM under the same op budget) never returns
            "program-loops-under-unlimited-gas" => {
                class == "unbounded-work"
                    && match &sc {
                        C06Scenario::ProgramBytes { bytes } => program_alone_overruns(bytes),
                        _ => false,
                    }
            }
            _ => false,
        };
        if hit {
            return Some(k.id.clone());
        }
    }
    None
}

/// Does the program, executed alone by the VM with unlimited gas, overrun the op budget?
fn program_alone_overruns(bytes: &[u8]) -> bool {
    let case = crate::vmsim::VmCase {
        program: bytes.to_vec(),
        init_stack: vec![],
        init_memory: vec![],
        solutions: vec![vec![vec![1]]],
        index: 0,
        contract: CONTRACT,
        pre: vec![(CONTRACT, vec![1], vec![11]), (OTHER, vec![1], vec![22])],
        post: vec![],
        faults: vec![],
        cost: crate::vmsim::CostSpec::Const(1),
        limit_total: u64::MAX,
        per_yield: 4096,
        container: crate::vmsim::Container::Slice,
        shape: String::new(),
        on_worker: true,
    };
    let (r, _) = crate::vmsim::run_vm(
        &Arc::new(case),
        &SchedSpec::sequential(),
        u64::MAX,
        crate::vmsim::RunOpts {
            op_budget: oracle::OP_BUDGET,
            item_budget: oracle::ITEM_BUDGET,
            ..Default::default()
        },
    );
    matches!(r, Err(crate::vmsim::VmRunError::Budget))
}

pub fn describe(_prop: &str) -> PropText {
    PropText {
        level: "fault_enumeration",
        rule: "storage-corruption faults on valid stored artefacts and hostile program-chosen values, as closed sets enumerated completely (every word string of length 1..4 over 8 boundary values as a data output in either pass; every truncation offset and every single-bit flip of an encoded predicate; every truncation and boundary substitution of an encoded mutation list; 12 hostile read counts x 4 key shapes x view x own/external x mutated/unmutated contract) plus seeded samples (1-2 random corruptions — truncate, bit flip, duplicate/drop/zero a chunk — of random valid predicates, mutation lists and programs; longer hostile outputs; arbitrary graph arrays; random hostile reads; op-soup workloads on corrupted graphs). Each case goes through the public decoder and, where it yields something the documented preconditions allow, through the real two-pass check on the simulated stores. distinct = distinct corrupted artefact; every case is non-trivial (it carries a fault)".into(),
        assumptions: vec![
            "documented preconditions are respected: sets pass check_set, predicates pass predicate::check, referenced programs exist".into(),
            "a panic is attributed to the system when its location is not under /verif/sim; a dying worker process (allocation failure aborts) is attributed to the case it was running".into(),
            "the allocator seam records the largest single request; above 1 GiB is attacker-sized".into(),
            "work is bounded by budgets (3M VM ops, 200k parallel items, 2M device calls per check); exceeding one is reported as unbounded work".into(),
        ],
        real_vs_stub: json!({
            "real": ["essential-types decoders", "essential-asm::from_bytes", "essential-vm BytecodeMapped", "essential-check predicate::check and the two-pass check"],
            "stub": {"rayon": "rayon-sim, sequential mode (no schedule dimension in this property)"},
            "simulated seams": ["state device with call budget", "program/predicate stores serving the corrupted artefacts", "global allocator wrapper (largest request)"],
        }),
    }
}

pub const FAMILY: crate::driver::Family = crate::driver::Family {
    plan,
    run_case,
    replay,
    shrink: shrink_payload,
    known,
    describe,
};
