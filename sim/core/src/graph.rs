//! M-graph: an independent reading of the node/edge encoding, plus the abstract DAGs the
//! generator draws and the encodings (numberings) it can give them.

use crate::rng::Rng;
use std::collections::BTreeSet;

#[derive(Clone, Debug, PartialEq, Eq)]
pub enum GraphErr {
    /// the documented slicing rule gives no slice for this node
    BadSlice(usize),
    /// an edge names a node that does not exist
    Dangling(usize, u16),
    Cycle,
}

#[derive(Clone, Debug, PartialEq, Eq)]
pub struct Graph {
    pub n: usize,
    /// children per node, as listed (with multiplicity)
    pub children: Vec<Vec<u16>>,
    /// parents per node in ascending parent index, with multiplicity
    pub parents: Vec<Vec<u16>>,
    /// longest-path depth from the roots (numbering independent)
    pub level: Vec<usize>,
}

pub const LEAF: u16 = u16::MAX;

/// The slice of `edges` belonging to node `i`, by the documented rule: a node whose
/// `edge_start` is the leaf marker has none; otherwise its edges start at `edge_start`
/// and end where the next node's begin, or at the end of the list when the next node is
/// a leaf or there is no next node.
pub fn node_slice(starts: &[u16], n_edges: usize, i: usize) -> Option<(usize, usize)> {
    let s = *starts.get(i)?;
    if s == LEAF {
        return Some((0, 0));
    }
    let start = s as usize;
    let end = match starts.get(i + 1) {
        Some(&nx) if nx != LEAF => nx as usize,
        _ => n_edges,
    };
    if start <= end && end <= n_edges {
        Some((start, end))
    } else {
        None
    }
}

pub fn decode(starts: &[u16], edges: &[u16]) -> Result<Graph, GraphErr> {
    let n = starts.len();
    let mut children = Vec::with_capacity(n);
    for i in 0..n {
        let (a, b) = node_slice(starts, edges.len(), i).ok_or(GraphErr::BadSlice(i))?;
        children.push(edges[a..b].to_vec());
    }
    let mut parents = vec![Vec::new(); n];
    for (p, cs) in children.iter().enumerate() {
        for &c in cs {
            if (c as usize) >= n {
                return Err(GraphErr::Dangling(p, c));
            }
            parents[c as usize].push(p as u16);
        }
    }
    // longest-path levels by Kahn peeling; leftover nodes = cycle
    let mut indeg: Vec<usize> = parents.iter().map(|p| p.len()).collect();
    let mut level = vec![0usize; n];
    let mut frontier: Vec<usize> = (0..n).filter(|&i| indeg[i] == 0).collect();
    let mut done = 0;
    let mut l = 0;
    while !frontier.is_empty() {
        let mut next = Vec::new();
        for &v in &frontier {
            level[v] = l;
            done += 1;
        }
        for &v in &frontier {
            for &c in &children[v] {
                indeg[c as usize] -= 1;
                if indeg[c as usize] == 0 {
                    next.push(c as usize);
                }
            }
        }
        next.sort_unstable();
        next.dedup();
        frontier = next;
        l += 1;
    }
    if done != n {
        return Err(GraphErr::Cycle);
    }
    Ok(Graph {
        n,
        children,
        parents,
        level,
    })
}

impl Graph {
    pub fn is_leaf(&self, i: usize) -> bool {
        self.children[i].is_empty()
    }
    /// `seed` nodes and everything reachable from them.
    pub fn descendants_closure(&self, seed: &BTreeSet<usize>) -> BTreeSet<usize> {
        let mut out = seed.clone();
        let mut stack: Vec<usize> = seed.iter().copied().collect();
        while let Some(v) = stack.pop() {
            for &c in &self.children[v] {
                if out.insert(c as usize) {
                    stack.push(c as usize);
                }
            }
        }
        out
    }
    /// `seed` nodes and all their ancestors.
    pub fn ancestors_closure(&self, seed: &BTreeSet<usize>) -> BTreeSet<usize> {
        let mut out = seed.clone();
        let mut stack: Vec<usize> = seed.iter().copied().collect();
        while let Some(v) = stack.pop() {
            for &p in &self.parents[v] {
                if out.insert(p as usize) {
                    stack.push(p as usize);
                }
            }
        }
        out
    }
    /// node indices in (level, index) order
    pub fn topo(&self) -> Vec<usize> {
        let mut v: Vec<usize> = (0..self.n).collect();
        v.sort_by_key(|&i| (self.level[i], i));
        v
    }
}

// ---------------------------------------------------------------------------------
// abstract DAGs and their encodings

/// An abstract DAG: `children[a]` lists the abstract children of abstract node `a`
/// (multi-edges allowed). Abstract ids are topologically ordered (edges go up).
#[derive(Clone, Debug, PartialEq, Eq)]
pub struct Dag {
    pub children: Vec<Vec<usize>>,
}

impl Dag {
    pub fn n(&self) -> usize {
        self.children.len()
    }
    pub fn is_leaf(&self, a: usize) -> bool {
        self.children[a].is_empty()
    }
    pub fn parents(&self, a: usize) -> Vec<usize> {
        let mut p = Vec::new();
        for (i, cs) in self.children.iter().enumerate() {
            for &c in cs {
                if c == a {
                    p.push(i);
                }
            }
        }
        p
    }

    pub fn random(rng: &mut Rng, n: usize) -> Dag {
        let mut children = vec![Vec::new(); n];
        let shape = rng.below(6);
        match shape {
            0 => {
                // chain
                for i in 0..n.saturating_sub(1) {
                    children[i].push(i + 1);
                }
            }
            1 => {
                // fan-out then fan-in
                if n >= 3 {
                    for i in 1..n - 1 {
                        children[0].push(i);
                        children[i].push(n - 1);
                    }
                } else if n == 2 {
                    children[0].push(1);
                }
            }
            2 => {
                // isolated nodes and a few edges
                for i in 0..n {
                    if rng.chance(1, 3) && i + 1 < n {
                        let t = i + 1 + rng.usize(n - i - 1);
                        children[i].push(t);
                    }
                }
            }
            _ => {
                // layered random with multi-edges
                for i in 0..n {
                    if i + 1 < n && rng.chance(3, 4) {
                        let k = 1 + rng.usize(3);
                        for _ in 0..k {
                            let t = i + 1 + rng.usize(n - i - 1);
                            children[i].push(t);
                        }
                        if rng.chance(1, 6) {
                            // explicit multi-edge
                            let t = children[i][0];
                            children[i].push(t);
                        }
                    }
                }
            }
        }
        Dag { children }
    }
}

/// A numbering: `index_of[a]` = node index of abstract node `a`.
pub type Numbering = Vec<usize>;

/// Draw a numbering from the family the encoding can express exactly: the non-leaf nodes
/// occupy one contiguous block of indices (in any internal order), leaves take the
/// remaining indices on either side.
pub fn random_numbering(rng: &mut Rng, dag: &Dag, topological: bool) -> Numbering {
    let n = dag.n();
    let mut inner: Vec<usize> = (0..n).filter(|&a| !dag.is_leaf(a)).collect();
    let mut leaves: Vec<usize> = (0..n).filter(|&a| dag.is_leaf(a)).collect();
    if !topological {
        rng.shuffle(&mut inner);
        rng.shuffle(&mut leaves);
    }
    let before = if topological {
        0
    } else {
        rng.usize(leaves.len() + 1)
    };
    let mut order: Vec<usize> = Vec::with_capacity(n);
    order.extend(leaves[..before].iter().copied());
    order.extend(inner.iter().copied());
    order.extend(leaves[before..].iter().copied());
    let mut index_of = vec![0; n];
    for (ix, a) in order.iter().enumerate() {
        index_of[*a] = ix;
    }
    index_of
}

/// Does `b` keep, for every node, the relative order of its parents that `a` gives?
/// (Parents are concatenated in ascending *index* order, so only such pairs of numberings
/// are comparable by "the result is a function of the edges only".)
pub fn same_parent_order(dag: &Dag, a: &Numbering, b: &Numbering) -> bool {
    for v in 0..dag.n() {
        let ps = dag.parents(v);
        for i in 0..ps.len() {
            for j in 0..ps.len() {
                let (x, y) = (ps[i], ps[j]);
                if x != y && (a[x] < a[y]) != (b[x] < b[y]) {
                    return false;
                }
            }
        }
    }
    true
}

/// Encode `dag` under `numbering`: returns (edge_start per node index, edges).
pub fn encode(dag: &Dag, index_of: &Numbering) -> (Vec<u16>, Vec<u16>) {
    let n = dag.n();
    let mut abstract_at = vec![0usize; n];
    for (a, &ix) in index_of.iter().enumerate() {
        abstract_at[ix] = a;
    }
    let mut starts = vec![LEAF; n];
    let mut edges = Vec::new();
    for ix in 0..n {
        let a = abstract_at[ix];
        if !dag.is_leaf(a) {
            starts[ix] = edges.len() as u16;
            for &c in &dag.children[a] {
                edges.push(index_of[c] as u16);
            }
        }
    }
    (starts, edges)
}

#[cfg(test)]
mod tests {
    use super::*;
    #[test]
    fn encode_decode_roundtrip() {
        let mut rng = Rng::new(7);
        for _ in 0..2000 {
            let n = 1 + rng.usize(9);
            let dag = Dag::random(&mut rng, n);
            let num = random_numbering(&mut rng, &dag, false);
            let (starts, edges) = encode(&dag, &num);
            let g = decode(&starts, &edges).expect("valid");
            for a in 0..n {
                let want: Vec<u16> = dag.children[a].iter().map(|&c| num[c] as u16).collect();
                assert_eq!(g.children[num[a]], want);
            }
        }
    }
}
