//! Oracles over one checker-level execution: model equality, history invariants over the
//! recorded event log, determinism against the sequential schedule, order independence.
//! Everything here works from the explicit `Workload`, so that replay files and the
//! minimiser need nothing else.

use crate::events::{self, Ev, View};
use crate::gen::{BEACON_ROW, TAG_BASE};
use crate::hooks;
use crate::model::{self, ModelOut, Verdict};
use crate::ops;
use crate::real;
use crate::runner::{run_sim, SchedSpec, SimFailure, SimOutcome};
use crate::store;
use crate::wl::{Mat, Workload};
use essential_asm as asm;
use std::collections::BTreeMap;
use std::sync::Arc;

#[derive(Clone, Debug, PartialEq)]
pub struct Finding {
    /// stable class name: the minimiser keeps a candidate only while the class persists
    pub class: String,
    pub message: String,
}

pub fn finding(class: &str, message: impl Into<String>) -> Finding {
    Finding {
        class: class.into(),
        message: message.into(),
    }
}

#[derive(Default, Clone, Debug)]
pub struct ExecInfo {
    pub steps: u64,
    pub context_switches: u64,
    pub order_hash: u64,
    pub event_hash: u64,
    pub regions_multi: u64,
    pub overlaps: u64,
    pub out_of_order: u64,
    pub skipped: u64,
    pub multi_error_regions: u64,
    pub reads: u64,
    pub fetches: u64,
    pub ops: u64,
    pub lazy_sync: u64,
    pub faults: store::FaultCounts,
    pub max_in_flight: u64,
}

pub struct RealRun {
    pub verdict: Result<Verdict, Finding>,
    pub info: ExecInfo,
    pub events: Vec<Ev>,
    pub trace: crate::runner::Trace,
}

/// Device calls an execution may make before the device starts failing (keeps the simulator
/// itself from hanging on astronomically large requests).
pub const DEVICE_CALL_BUDGET: u64 = 2_000_000;
/// Parallel items an execution may start.
pub const ITEM_BUDGET: u64 = 200_000;
/// VM ops an execution may step.
pub const OP_BUDGET: u64 = 3_000_000;

/// One execution of the real checker on `w` under `spec`.
pub fn run_real(w: &Arc<Workload>, spec: &SchedSpec, keep_events: bool) -> RealRun {
    let w2 = w.clone();
    // per-execution simulator state lives on the thread the execution runs on: reset it and
    // collect it there
    let out: SimOutcome<(
        Result<Verdict, crate::runner::PanicInfo>,
        events::Log,
        hooks::HookState,
        store::FaultCounts,
    )> = run_sim(spec, move || {
        events::reset(keep_events);
        hooks::reset(false, 0);
        store::reset_faults(DEVICE_CALL_BUDGET);
        rayon::sim::set_item_budget(ITEM_BUDGET);
        hooks::set_op_budget(OP_BUDGET);
        let r = crate::runner::catch(|| {
            let m = w2.materialize();
            real::run_checker(&w2, &m)
        });
        (r, events::take(), hooks::take(), store::fired())
    });
    let (result, log, hs, faults) = match out.result {
        Ok((Ok(v), log, hs, fc)) => (Ok(v), log, hs, fc),
        Ok((Err(p), log, hs, fc)) => (Err(crate::runner::classify_panic(p)), log, hs, fc),
        Err(e) => (
            Err(e),
            events::Log::default(),
            hooks::HookState::default(),
            store::FaultCounts::default(),
        ),
    };
    let out = SimOutcome {
        result,
        stats: out.stats,
        trace: out.trace,
        steps: out.steps,
        context_switches: out.context_switches,
    };
    let info = ExecInfo {
        steps: out.steps + log.reads + log.fetches,
        context_switches: out.context_switches,
        order_hash: out.stats.order_hash,
        event_hash: log.hash,
        regions_multi: out.stats.regions_multi,
        overlaps: out.stats.overlaps,
        out_of_order: out.stats.out_of_order_starts,
        skipped: out.stats.skipped,
        multi_error_regions: out.stats.multi_error_regions,
        reads: log.reads,
        fetches: log.fetches,
        ops: log.ops,
        lazy_sync: hs.lazy_sync,
        faults,
        max_in_flight: out.stats.max_in_flight,
    };
    let verdict = match out.result {
        // a VM seen outside its bounds counts however the execution ended afterwards (one that
        // outgrows a bound typically also outruns a budget)
        Ok(_) | Err(SimFailure::ItemBudget) if hs.bound_violation.is_some() => {
            Err(finding("vm-bound", hs.bound_violation.clone().unwrap_or_default()))
        }
        // the simulated device gave up (call budget): whatever came back is an artefact of the
        // simulator's own limit, not of the code — inconclusive, like the other budgets
        Ok(_) if faults.budget > 0 => Err(finding("budget", "device call budget exhausted")),
        Ok(v) => Ok(v),
        Err(SimFailure::Panic(p)) => {
            if p.location.starts_with("/verif/") || p.location.contains("/verif/sim/") {
                Err(finding(
                    "harness-error",
                    format!("panic in harness code: {} at {}", p.message, p.location),
                ))
            } else {
                Err(finding(
                    "panic",
                    format!(
                        "panic out of the checker: {} at {} [{}]",
                        p.message,
                        p.location,
                        p.system_frame.unwrap_or_default()
                    ),
                ))
            }
        }
        Err(SimFailure::Deadlock(m)) => Err(finding("deadlock", m)),
        Err(SimFailure::StepLimit) => Err(finding("step-limit", "execution exceeded the step budget")),
        Err(SimFailure::ItemBudget) => Err(finding("budget", "op / parallel item budget exhausted")),
        Err(SimFailure::ReplayDiverged(m)) => Err(finding("harness-error", format!("replay diverged: {m}"))),
    };
    RealRun {
        verdict,
        info,
        events: log.events,
        trace: out.trace,
    }
}

/// `first` and then `w` through the real checker inside one execution (same simulated
/// threads, same OS thread, same process state); reports what the second check returned.
pub fn run_real_after(first: &Arc<Workload>, w: &Arc<Workload>, spec: &SchedSpec) -> RealRun {
    let (f2, w2) = (first.clone(), w.clone());
    let out: SimOutcome<(
        Result<Verdict, crate::runner::PanicInfo>,
        events::Log,
        hooks::HookState,
        store::FaultCounts,
    )> = run_sim(spec, move || {
        events::reset(false);
        hooks::reset(false, 0);
        store::reset_faults(DEVICE_CALL_BUDGET);
        rayon::sim::set_item_budget(ITEM_BUDGET);
        hooks::set_op_budget(OP_BUDGET);
        let r = crate::runner::catch(|| {
            // both sets are prepared up front so that nothing is allocated between the two checks:
            // the second check then tends to get its allocations where the first had them
            // (a cache keyed by address sees "the same set" again)
            let m1 = f2.materialize();
            let m = w2.materialize();
            drop(real::run_checker(&f2, &m1));
            real::run_checker(&w2, &m)
        });
        (r, events::take(), hooks::take(), store::fired())
    });
    let info = ExecInfo {
        steps: out.steps,
        context_switches: out.context_switches,
        order_hash: out.stats.order_hash,
        regions_multi: out.stats.regions_multi,
        overlaps: out.stats.overlaps,
        ..Default::default()
    };
    let verdict = match out.result {
        Ok((_, _, _, fc)) if fc.budget > 0 => Err(finding("budget", "device call budget exhausted")),
        Ok((Ok(v), _, hs, _)) => match hs.bound_violation {
            Some(b) => Err(finding("vm-bound", b)),
            None => Ok(v),
        },
        Ok((Err(p), ..)) => match crate::runner::classify_panic(p) {
            SimFailure::ItemBudget => Err(finding("budget", "budget")),
            SimFailure::Panic(p) => Err(finding("panic", format!("panic out of the checker: {} at {}", p.message, p.location))),
            other => Err(finding("abnormal", format!("{other:?}"))),
        },
        Err(SimFailure::ItemBudget) => Err(finding("budget", "budget")),
        Err(e) => Err(finding("abnormal", format!("{e:?}"))),
    };
    RealRun {
        verdict,
        info,
        events: Vec::new(),
        trace: out.trace,
    }
}

/// The model's expectation for `w` (sequential, outside any simulated execution).
pub fn run_model(w: &Workload) -> (Mat, ModelOut) {
    rayon::sim::set_mode(rayon::sim::Mode::Sequential);
    rayon::sim::set_item_budget(ITEM_BUDGET);
    events::reset(false);
    hooks::reset(false, 0);
    hooks::set_op_budget(OP_BUDGET);
    let m = w.materialize();
    let out = model::two_pass(w, &m);
    (m, out)
}

// ---------------------------------------------------------------------------------
// history invariants from the beacon log

#[derive(Default, Debug, Clone)]
struct NodeHist {
    begins: Vec<usize>,
    ends: Vec<usize>,
}

fn node_tags(w: &Workload, pred: usize) -> BTreeMap<i64, usize> {
    let mut m = BTreeMap::new();
    for (ix, (_, pi)) in w.preds[pred].nodes.iter().enumerate() {
        if let Ok(ops) = ops::from_bytes(&w.programs[*pi]) {
            if let Some(asm::Op::Stack(asm::Stack::Push(t))) = ops.first() {
                m.insert(*t, ix);
            }
        }
    }
    m
}

/// C01(3)/C03: exactly-once, after-parents, pass ordering — evaluated over the device log.
pub fn check_history(
    w: &Workload,
    mo: &ModelOut,
    verdict: &Verdict,
    log: &[Ev],
) -> Result<(), Finding> {
    if !w.beacons {
        return Ok(());
    }
    let uid_to_sol: BTreeMap<i64, usize> = w
        .sols
        .iter()
        .enumerate()
        .filter_map(|(i, s)| s.data.first().and_then(|d| d.first()).map(|u| (*u, i)))
        .collect();
    let tags: Vec<BTreeMap<i64, usize>> = (0..w.preds.len()).map(|p| node_tags(w, p)).collect();
    let mut hist: BTreeMap<(usize, usize), NodeHist> = BTreeMap::new();
    let mut post_events: Vec<usize> = Vec::new();
    for (seq, ev) in log.iter().enumerate() {
        if let Ev::Read { view, key, n, .. } = ev {
            if *view == View::Post {
                post_events.push(seq);
            }
            if key.len() == 2 && *n == 1 && key[1] >= BEACON_ROW + 2 * TAG_BASE {
                let Some(&si) = uid_to_sol.get(&key[0]) else {
                    continue;
                };
                let t = (key[1] - BEACON_ROW) / 2;
                let phase = (key[1] - BEACON_ROW) % 2;
                let Some(&ix) = tags[w.sols[si].pred].get(&t) else {
                    continue;
                };
                let h = hist.entry((si, ix)).or_default();
                if phase == 0 {
                    h.begins.push(seq);
                } else {
                    h.ends.push(seq);
                }
            }
        }
    }
    let ok = matches!(verdict, Verdict::Ok { .. });
    // (a),(b): at most once; exactly once when the verdict is Ok
    for ((si, ix), h) in &hist {
        if h.begins.len() > 1 || h.ends.len() > 1 {
            return Err(finding(
                "history-node-ran-twice",
                format!("solution {si} node {ix}: {} begins, {} ends", h.begins.len(), h.ends.len()),
            ));
        }
        if let (Some(b), Some(e)) = (h.begins.first(), h.ends.first()) {
            if e < b {
                return Err(finding("history-end-before-begin", format!("solution {si} node {ix}")));
            }
        }
    }
    for (si, tr) in mo.sols.iter().enumerate() {
        let Some(g) = &tr.graph else {
            // (g) rejected graphs are not partially evaluated
            if hist.keys().any(|(s, _)| *s == si) {
                return Err(finding(
                    "history-invalid-graph-evaluated",
                    format!("solution {si}: the model rejects the graph, yet node programs ran"),
                ));
            }
            continue;
        };
        for ix in 0..g.n {
            let h = hist.get(&(si, ix));
            if ok {
                let complete = h.map(|h| h.begins.len() == 1 && h.ends.len() == 1).unwrap_or(false);
                if !complete {
                    return Err(finding(
                        "history-node-not-run-once",
                        format!("verdict Ok but solution {si} node {ix} has history {h:?}"),
                    ));
                }
            }
            // (c),(d): after all parents
            if let Some(hc) = h {
                if let Some(&cb) = hc.begins.first() {
                    for &p in &g.parents[ix] {
                        let hp = hist.get(&(si, p as usize));
                        match hp.and_then(|hp| hp.ends.first()) {
                            Some(&pe) if pe < cb => {}
                            Some(&pe) => {
                                return Err(finding(
                                    "history-child-before-parent",
                                    format!("solution {si}: node {ix} began at {cb}, parent {p} ended at {pe}"),
                                ))
                            }
                            None => {
                                // the parent never completed: only legitimate when it failed and all
                                // failures are being collected
                                if ok {
                                    return Err(finding(
                                        "history-child-without-parent",
                                        format!("solution {si}: node {ix} ran, parent {p} never completed"),
                                    ));
                                }
                            }
                        }
                    }
                }
            }
        }
    }
    // (e): nothing deferred begins, and no post-view request is made, before every node that can
    // contribute a first-pass mutation has completed (in every solution)
    let mut last_relevant_end: Option<(usize, usize, usize)> = None;
    for (si, tr) in mo.sols.iter().enumerate() {
        for &ix in &tr.mutation_relevant {
            if let Some(&e) = hist.get(&(si, ix)).and_then(|h| h.ends.first()) {
                if last_relevant_end.map(|l| e > l.0).unwrap_or(true) {
                    last_relevant_end = Some((e, si, ix));
                }
            }
        }
    }
    if let Some((le, lsi, lix)) = last_relevant_end {
        for (si, tr) in mo.sols.iter().enumerate() {
            for &ix in &tr.deferred {
                if let Some(&b) = hist.get(&(si, ix)).and_then(|h| h.begins.first()) {
                    if b < le {
                        return Err(finding(
                            "history-deferred-too-early",
                            format!("solution {si} deferred node {ix} began at {b}, before solution {lsi} node {lix} (feeds a first-pass mutation) ended at {le}"),
                        ));
                    }
                }
            }
        }
        if let Some(&p) = post_events.first() {
            if p < le {
                return Err(finding(
                    "history-post-read-too-early",
                    format!("post-view request at {p} before first-pass mutations were known ({le})"),
                ));
            }
        }
    }
    // non-deferred nodes run in the first pass only: they never begin after a deferred node of
    // the same solution that depends on nothing … (covered by exactly-once + after-parents)
    Ok(())
}

/// C07 at the checker's level, independent of the model: every node program is metered at one
/// unit per operation, so the gas a successful check reports is the number of operations the
/// VMs of this execution stepped (hook H1 counts them, compute children included).
fn gas_conservation(v: &Verdict, rr: &RealRun) -> Option<Finding> {
    match v {
        Verdict::Ok { gas, .. } if *gas != rr.info.ops => Some(finding(
            "gas-not-conserved",
            format!("the check reports gas {gas}, its VMs executed {} operations at one unit each", rr.info.ops),
        )),
        _ => None,
    }
}

/// Model equality + history, one execution.
pub fn check_against_model(
    w: &Arc<Workload>,
    mo: &ModelOut,
    spec: &SchedSpec,
) -> (Option<Finding>, RealRun) {
    let rr = run_real(w, spec, true);
    if mo.unusable.is_some() {
        return (None, rr);
    }
    let f = match &rr.verdict {
        Err(f) if f.class == "budget" => None,
        Err(f) => Some(f.clone()),
        Ok(v) => match model::matches(&mo.expect, v) {
            Err(msg) => Some(finding("model-mismatch", msg)),
            Ok(()) => check_history(w, mo, v, &rr.events).err().or_else(|| gas_conservation(v, &rr)),
        },
    };
    (f, rr)
}
