//! C02 draws its cases from two families: checker-level workloads (props) and `Vm::exec`
//! on fork/join programs (vmprops).

use crate::driver::{BatchPlan, CaseOut, Family, KnownFinding, PropText};
use crate::oracle::Finding;
use serde_json::Value;

fn plan(prop: &str, tier: &str) -> Vec<BatchPlan> {
    let mut p = crate::props::plan(prop, tier);
    p.extend(crate::vmprops::plan(prop, tier));
    p
}

fn run_case(prop: &str, batch: &str, run_seed: u64) -> CaseOut {
    if batch == "c02-vm" {
        crate::vmprops::run_case(prop, batch, run_seed)
    } else {
        crate::props::run_case(prop, batch, run_seed)
    }
}

fn is_vm(payload: &Value) -> bool {
    payload.get("Vm").is_some()
}

fn replay(payload: &Value) -> Result<Option<Finding>, String> {
    if is_vm(payload) {
        crate::vmprops::replay(payload)
    } else {
        crate::props::replay(payload)
    }
}

fn shrink(payload: &Value, class: &str) -> (Value, Value) {
    if is_vm(payload) {
        crate::vmprops::shrink_payload(payload, class)
    } else {
        crate::props::shrink_payload(payload, class)
    }
}

fn known(prop: &str, payload: &Value, class: &str, k: &[KnownFinding]) -> Option<String> {
    if is_vm(payload) {
        None
    } else {
        crate::props::known(prop, payload, class, k)
    }
}

fn describe(prop: &str) -> PropText {
    let mut t = crate::props::describe(prop);
    t.rule.push_str("; a second batch runs Vm::exec on generated fork/join programs (breadths up to thousands, index-dependent child bodies, several failing children, state reads, PredicateExists) under 6 seeded schedules each, op-granular in 2/3 of them, against the sequential schedule");
    t
}

pub const FAMILY_C02: Family = Family {
    plan,
    run_case,
    replay,
    shrink,
    known,
    describe,
};

// ---------------------------------------------------------------------------------
// C07: the VM-level gas batches plus a checker-level one (total gas of a two-pass check)

fn plan_c07(prop: &str, tier: &str) -> Vec<BatchPlan> {
    let mut p = crate::vmprops::plan(prop, tier);
    p.extend(crate::props::plan(prop, tier));
    p
}

fn run_case_c07(prop: &str, batch: &str, run_seed: u64) -> CaseOut {
    if batch == "c07-checker" {
        crate::props::run_case(prop, batch, run_seed)
    } else {
        crate::vmprops::run_case(prop, batch, run_seed)
    }
}

fn describe_c07(prop: &str) -> PropText {
    let mut t = crate::vmprops::describe(prop);
    t.rule.push_str("; ");
    t.rule.push_str(&crate::props::describe(prop).rule);
    t
}

pub const FAMILY_C07: Family = Family {
    plan: plan_c07,
    run_case: run_case_c07,
    replay,
    shrink,
    known,
    describe: describe_c07,
};
