//! The one PRNG everything is derived from (SplitMix64 seeding, xoshiro256** stream).
//! No other source of randomness is used by generators, fault plans or knobs; schedule
//! choices come from shuttle schedulers that are themselves seeded from here.

#[derive(Clone, Debug)]
pub struct Rng {
    s: [u64; 4],
}

pub fn splitmix(mut x: u64) -> u64 {
    x = x.wrapping_add(0x9E3779B97F4A7C15);
    let mut z = x;
    z = (z ^ (z >> 30)).wrapping_mul(0xBF58476D1CE4E5B9);
    z = (z ^ (z >> 27)).wrapping_mul(0x94D049BB133111EB);
    z ^ (z >> 31)
}

/// Derive a child seed from a parent seed and a list of labels.
pub fn derive(seed: u64, labels: &[u64]) -> u64 {
    let mut h = splitmix(seed);
    for l in labels {
        h = splitmix(h ^ splitmix(*l));
    }
    h
}

pub fn label(s: &str) -> u64 {
    let mut h: u64 = 0xcbf29ce484222325;
    for b in s.bytes() {
        h ^= b as u64;
        h = h.wrapping_mul(0x100000001b3);
    }
    h
}

impl Rng {
    pub fn new(seed: u64) -> Self {
        let mut x = seed;
        let mut s = [0u64; 4];
        for v in &mut s {
            x = splitmix(x);
            *v = x;
        }
        if s == [0; 4] {
            s[0] = 1;
        }
        Rng { s }
    }
    pub fn next_u64(&mut self) -> u64 {
        let r = self.s[1].wrapping_mul(5).rotate_left(7).wrapping_mul(9);
        let t = self.s[1] << 17;
        self.s[2] ^= self.s[0];
        self.s[3] ^= self.s[1];
        self.s[1] ^= self.s[2];
        self.s[0] ^= self.s[3];
        self.s[2] ^= t;
        self.s[3] = self.s[3].rotate_left(45);
        r
    }
    /// uniform in 0..n (n > 0)
    pub fn below(&mut self, n: u64) -> u64 {
        debug_assert!(n > 0);
        ((self.next_u64() as u128 * n as u128) >> 64) as u64
    }
    pub fn usize(&mut self, n: usize) -> usize {
        self.below(n as u64) as usize
    }
    /// uniform in lo..=hi
    pub fn range(&mut self, lo: i64, hi: i64) -> i64 {
        let span = (hi as i128 - lo as i128 + 1) as u128;
        let r = (self.next_u64() as u128 * span) >> 64;
        (lo as i128 + r as i128) as i64
    }
    pub fn chance(&mut self, num: u64, den: u64) -> bool {
        self.below(den) < num
    }
    pub fn pick<'a, T>(&mut self, xs: &'a [T]) -> &'a T {
        &xs[self.usize(xs.len())]
    }
    pub fn shuffle<T>(&mut self, xs: &mut [T]) {
        for i in (1..xs.len()).rev() {
            let j = self.usize(i + 1);
            xs.swap(i, j);
        }
    }
    pub fn fork(&mut self) -> Rng {
        Rng::new(self.next_u64())
    }
    pub fn word(&mut self) -> i64 {
        self.next_u64() as i64
    }
}
