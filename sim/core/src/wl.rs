//! The explicit, serialisable description of one checker-level workload (what a replay
//! file carries) and its materialisation into the objects the real entry points take.

use crate::events::CA;
use crate::store::{Fault, SimPredicates, SimPrograms, SimState, StateMap};
use essential_types::{
    predicate::{Node, Predicate, Program},
    solution::{Mutation, Solution, SolutionSet},
    ContentAddress, Key, PredicateAddress, Value, Word,
};
use serde::{Deserialize, Serialize};
use std::collections::HashMap;
use std::sync::Arc;

#[derive(Clone, Debug, Serialize, Deserialize, PartialEq)]
pub struct PredDef {
    pub contract: CA,
    /// (edge_start, index into `Workload::programs`)
    pub nodes: Vec<(u16, usize)>,
    pub edges: Vec<u16>,
}

#[derive(Clone, Debug, Serialize, Deserialize, PartialEq)]
pub struct SolDef {
    pub pred: usize,
    pub data: Vec<Vec<Word>>,
    pub muts: Vec<(Key, Value)>,
}

#[derive(Clone, Copy, Debug, Serialize, Deserialize, PartialEq, Eq)]
pub enum Entry {
    /// `check_and_compute_solution_set_two_pass`
    TwoPass,
    /// the two run modes called in sequence by the harness over a shared cache, the
    /// post view being the harness's own
    TwoModes,
    /// `check_set_predicates` itself in both modes (shared cache, harness's post view): the
    /// raw data outputs are the observable, reported here as pseudo-mutations `([], memory)`
    RawOutputs,
}

#[derive(Clone, Debug, Serialize, Deserialize, PartialEq)]
pub struct Workload {
    pub pre: Vec<(CA, Key, Value)>,
    pub programs: Vec<Vec<u8>>,
    pub preds: Vec<PredDef>,
    pub sols: Vec<SolDef>,
    pub collect_all: bool,
    pub entry: Entry,
    pub faults: Vec<Fault>,
    /// free text: which generator shape produced it
    pub shape: String,
    /// node programs begin and end with a beacon read (see gen::frag_beacon)
    pub beacons: bool,
    /// harness-driven entries only: the caller's cache map was used before, for an outputs
    /// pass over the same set against an *older* pre-state (a re-validation after the state
    /// moved on). Whatever that pass left in the map must not influence this check.
    #[serde(default)]
    pub stale_prelude: bool,
    /// harness-driven entries only: the caller's cache map was used before for an outputs pass
    /// over the first half of this set (a set that grew since it was last checked)
    #[serde(default)]
    pub prefix_prelude: bool,
    /// The predicate store is keyed by the full (contract, predicate) address and nothing says
    /// that the `predicate` half is unique on its own: predicates of different contracts are
    /// registered under the *same* predicate hash (the first predicate's).
    #[serde(default)]
    pub alias_pred_hash: bool,
    /// (index into `programs`, other bytes): the program store answers every second lookup of
    /// that program's address with the other bytes (totality only: no model covers this)
    #[serde(default)]
    pub flaky_program: Option<(usize, Vec<u8>)>,
}

pub struct Mat {
    pub programs: SimPrograms,
    pub predicates: SimPredicates,
    pub set: SolutionSet,
    pub state: SimState,
    pub prog_addrs: Vec<ContentAddress>,
    pub pred_addrs: Vec<PredicateAddress>,
    pub preds: Vec<Arc<Predicate>>,
}

pub fn program_addr(bytes: &[u8]) -> ContentAddress {
    essential_hash::content_addr(&Program(bytes.to_vec()))
}

impl Workload {
    pub fn state_map(&self) -> StateMap {
        self.pre
            .iter()
            .map(|(c, k, v)| ((*c, k.clone()), v.clone()))
            .collect()
    }

    pub fn predicate(&self, p: &PredDef, prog_addrs: &[ContentAddress]) -> Predicate {
        Predicate {
            nodes: p
                .nodes
                .iter()
                .map(|(es, pi)| Node {
                    edge_start: *es,
                    program_address: prog_addrs[*pi].clone(),
                })
                .collect(),
            edges: p.edges.clone(),
        }
    }

    pub fn materialize(&self) -> Mat {
        let prog_addrs: Vec<ContentAddress> =
            self.programs.iter().map(|b| program_addr(b)).collect();
        let programs: HashMap<ContentAddress, Arc<Program>> = self
            .programs
            .iter()
            .zip(&prog_addrs)
            .map(|(b, a)| (a.clone(), Arc::new(Program(b.clone()))))
            .collect();
        let mut pred_addrs = Vec::new();
        let mut preds = Vec::new();
        let mut predicates = HashMap::new();
        for p in &self.preds {
            let pr = self.predicate(p, &prog_addrs);
            // the predicate's own address: content hash when encodable, else a digest of the debug form
            let addr = if pr.nodes.len() <= Predicate::MAX_NODES as usize
                && pr.edges.len() <= Predicate::MAX_EDGES as usize
            {
                essential_hash::content_addr(&pr)
            } else {
                ContentAddress(essential_hash::hash_bytes(format!("{pr:?}").as_bytes()))
            };
            // aliasing: reuse the first predicate's hash wherever that does not collide
            let addr = match pred_addrs.first() {
                Some(PredicateAddress { predicate: first, .. })
                    if self.alias_pred_hash
                        && !predicates.contains_key(&PredicateAddress {
                            contract: ContentAddress(p.contract),
                            predicate: first.clone(),
                        }) =>
                {
                    first.clone()
                }
                _ => addr,
            };
            let pa = PredicateAddress {
                contract: ContentAddress(p.contract),
                predicate: addr,
            };
            let arc = Arc::new(pr);
            predicates.insert(pa.clone(), arc.clone());
            pred_addrs.push(pa);
            preds.push(arc);
        }
        let set = SolutionSet {
            solutions: self
                .sols
                .iter()
                .map(|s| Solution {
                    predicate_to_solve: pred_addrs[s.pred].clone(),
                    predicate_data: s.data.clone(),
                    state_mutations: s
                        .muts
                        .iter()
                        .map(|(k, v)| Mutation {
                            key: k.clone(),
                            value: v.clone(),
                        })
                        .collect(),
                })
                .collect(),
        };
        Mat {
            programs: SimPrograms(
                Arc::new(programs),
                self.flaky_program.as_ref().and_then(|(i, bytes)| {
                    Some(Arc::new(crate::store::FlakyProgram {
                        addr: prog_addrs.get(*i)?.clone(),
                        alt: Arc::new(Program(bytes.clone())),
                        lookups: std::sync::atomic::AtomicU64::new(0),
                    }))
                }),
            ),
            predicates: SimPredicates(Arc::new(predicates)),
            set,
            state: SimState::new(self.state_map(), self.faults.clone()),
            prog_addrs,
            pred_addrs,
            preds,
        }
    }
}
