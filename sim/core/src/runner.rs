//! One simulated execution: the closure runs with every parallel region of the code
//! under test scheduled by a seeded shuttle scheduler (or inline, sequential mode).
//! The scheduler is wrapped so that every decision (task chosen, random value handed
//! out) is recorded; a recorded trace replays exactly.

use rayon::sim as rsim;
use serde::{Deserialize, Serialize};
use shuttle::scheduler::{
    PctScheduler, RandomScheduler, Schedule, Scheduler, Task, TaskId, UrwRandomScheduler,
};
use std::cell::RefCell;
use std::panic::{catch_unwind, AssertUnwindSafe};
use std::sync::{Arc, Mutex};

#[derive(Clone, Debug, Serialize, Deserialize, PartialEq)]
pub enum SchedKind {
    /// inline, index order: the sequential reference
    Sequential,
    Random,
    Pct(usize),
    Urw,
    /// replay of a recorded decision trace
    Replay(Trace),
}

/// Every decision of one execution.
#[derive(Clone, Debug, Default, Serialize, Deserialize, PartialEq)]
pub struct Trace {
    /// task ids in the order they were scheduled
    pub tasks: Vec<u32>,
    /// random values handed to the execution, in order
    pub randoms: Vec<u64>,
    /// interleaving of the two lists: true = task step, false = random step
    pub order: Vec<bool>,
}

#[derive(Clone, Debug, Serialize, Deserialize, PartialEq)]
pub struct SchedSpec {
    pub kind: SchedKind,
    pub seed: u64,
    /// simulated pool size
    pub workers: usize,
    /// switch point after every VM op (hook H1) in addition to seam calls
    pub per_op_switch: bool,
}

impl SchedSpec {
    pub fn sequential() -> Self {
        SchedSpec {
            kind: SchedKind::Sequential,
            seed: 0,
            workers: 1,
            per_op_switch: false,
        }
    }
    pub fn describe(&self) -> String {
        let k = match &self.kind {
            SchedKind::Sequential => "seq".to_string(),
            SchedKind::Random => "random".to_string(),
            SchedKind::Pct(d) => format!("pct{d}"),
            SchedKind::Urw => "urw".to_string(),
            SchedKind::Replay(t) => format!("replay[{}]", t.order.len()),
        };
        format!(
            "{k}/seed={}/k={}/{}",
            self.seed,
            self.workers,
            if self.per_op_switch { "op" } else { "seam" }
        )
    }
}

#[derive(Clone, Debug, Serialize, Deserialize, PartialEq)]
pub struct PanicInfo {
    pub message: String,
    pub location: String,
    /// innermost frame of a crate of the system under test, if a backtrace was captured
    pub system_frame: Option<String>,
}

#[derive(Debug)]
pub enum SimFailure {
    /// the closure (or a simulated task) panicked and nobody caught it
    Panic(PanicInfo),
    Deadlock(String),
    StepLimit,
    ItemBudget,
    /// replay diverged from the recorded trace
    ReplayDiverged(String),
}

pub struct SimOutcome<R> {
    pub result: Result<R, SimFailure>,
    pub stats: rsim::Stats,
    pub trace: Trace,
    /// scheduling decisions taken (simulated time)
    pub steps: u64,
    /// decisions at which the scheduler switched to a different task than the one running
    pub context_switches: u64,
}

// ---------------------------------------------------------------------------------
// panic capture

thread_local! {
    static LAST_PANIC: RefCell<Option<PanicInfo>> = const { RefCell::new(None) };
    static CAPTURE_BT: std::cell::Cell<bool> = const { std::cell::Cell::new(true) };
    static CATCH_DEPTH: std::cell::Cell<u32> = const { std::cell::Cell::new(0) };
}

const SYSTEM_CRATES: [&str; 8] = [
    "essential_vm::",
    "essential_check::",
    "essential_types::",
    "essential_asm::",
    "essential_hash::",
    "essential_sign::",
    "essential_lock::",
    "essential_asm_spec::",
];

/// Install the process-wide panic hook (after shuttle has installed its own, which this replaces).
pub fn install_panic_hook() {
    // make shuttle install its hook first so that ours wins
    let _ = catch_unwind(|| {
        shuttle::check_random(|| {}, 1);
    });
    std::panic::set_hook(Box::new(|info| {
        let message = if let Some(s) = info.payload().downcast_ref::<&str>() {
            s.to_string()
        } else if let Some(s) = info.payload().downcast_ref::<String>() {
            s.clone()
        } else if info.payload().is::<rsim::BudgetExceeded>() {
            "rayon-sim item budget exceeded".to_string()
        } else {
            "<non-string panic payload>".to_string()
        };
        let location = info
            .location()
            .map(|l| format!("{}:{}:{}", l.file(), l.line(), l.column()))
            .unwrap_or_default();
        let system_frame = if CAPTURE_BT.with(|c| c.get()) {
            let bt = std::backtrace::Backtrace::force_capture().to_string();
            bt.lines()
                .map(|l| l.trim())
                .find(|l| SYSTEM_CRATES.iter().any(|c| l.contains(c)))
                .map(|l| l.to_string())
        } else {
            None
        };
        if CATCH_DEPTH.with(|c| c.get()) == 0 {
            // nobody is going to report this panic: it is a harness error
            eprintln!("essim: uncaught panic: {message} at {location}");
        }
        LAST_PANIC.with(|p| {
            *p.borrow_mut() = Some(PanicInfo {
                message,
                location,
                system_frame,
            })
        });
    }));
}

pub fn take_last_panic() -> Option<PanicInfo> {
    LAST_PANIC.with(|p| p.borrow_mut().take())
}

/// Run `f`, converting a panic into the information captured by the hook.
pub fn catch<R>(f: impl FnOnce() -> R) -> Result<R, PanicInfo> {
    let _ = take_last_panic();
    CATCH_DEPTH.with(|c| c.set(c.get() + 1));
    let res = catch_unwind(AssertUnwindSafe(f));
    CATCH_DEPTH.with(|c| c.set(c.get() - 1));
    match res {
        Ok(r) => Ok(r),
        Err(payload) => {
            let mut info = take_last_panic().unwrap_or(PanicInfo {
                message: "<panic without hook information>".into(),
                location: String::new(),
                system_frame: None,
            });
            if payload.is::<rsim::BudgetExceeded>() {
                info.message = "rayon-sim item budget exceeded".into();
            }
            Err(info)
        }
    }
}

// ---------------------------------------------------------------------------------
// recording / replaying scheduler

/// Max scheduling decisions per execution (liveness: "returns within a step budget").
pub const DEFAULT_MAX_STEPS: usize = 16_000_000;

thread_local! {
    static PER_OP_SWITCH: std::cell::Cell<bool> = const { std::cell::Cell::new(false) };
}

/// Whether hook H1 should act as a switch point in the current execution.
pub fn per_op_switch() -> bool {
    PER_OP_SWITCH.with(|c| c.get())
}

// ---------------------------------------------------------------------------------
// the simulation thread
//
// Creating a shuttle `Runner` per execution allocates (mmap) a fresh stack for every
// simulated task; on this machine that dominates and does not scale across processes.
// Instead each OS thread that asks for simulated executions owns one long-lived
// *simulation thread* on which a single `Runner` runs execution after execution, reusing
// its continuation pool. The scheduler handed to that runner blocks in `new_execution`
// until the next job arrives and builds the job's own seeded scheduler, so every job is
// still one exactly repeatable execution determined by its `SchedSpec` alone.

type AnyBox = Box<dyn std::any::Any + Send>;

struct Job {
    spec: SchedSpec,
    f: Box<dyn FnOnce() -> AnyBox + Send>,
    reply: std::sync::mpsc::Sender<JobResult>,
}

struct JobResult {
    result: Result<AnyBox, SimFailure>,
    stats: rsim::Stats,
    trace: Trace,
    steps: u64,
    switches: u64,
}

#[derive(Default)]
struct Cur {
    f: Option<Box<dyn FnOnce() -> AnyBox + Send>>,
    reply: Option<std::sync::mpsc::Sender<JobResult>>,
    spec: Option<SchedSpec>,
    result: Option<Result<AnyBox, PanicInfo>>,
    stats: Option<rsim::Stats>,
    trace: Trace,
    steps: u64,
    switches: u64,
    diverged: Option<String>,
}

fn finish_current(cur: &Arc<Mutex<Cur>>, failure: Option<SimFailure>) {
    let mut c = cur.lock().unwrap();
    let Some(reply) = c.reply.take() else {
        return;
    };
    let result = match failure {
        Some(f) => Err(f),
        None => {
            if let Some(d) = c.diverged.take() {
                Err(SimFailure::ReplayDiverged(d))
            } else {
                match c.result.take() {
                    Some(Ok(r)) => Ok(r),
                    Some(Err(p)) => Err(classify_panic(p)),
                    None => Err(SimFailure::Deadlock("execution ended without a result".into())),
                }
            }
        }
    };
    let trace = match c.spec.as_ref().map(|s| &s.kind) {
        Some(SchedKind::Replay(t)) => t.clone(),
        _ => std::mem::take(&mut c.trace),
    };
    let jr = JobResult {
        result,
        stats: c.stats.take().unwrap_or_default(),
        trace,
        steps: c.steps,
        switches: c.switches,
    };
    c.f = None;
    c.result = None;
    c.diverged = None;
    c.trace = Trace::default();
    let _ = reply.send(jr);
}

enum Inner {
    Record(Box<dyn Scheduler + Send>),
    Replay { trace: Trace, ti: usize, ri: usize, oi: usize },
}

struct MetaSched {
    rx: Arc<Mutex<std::sync::mpsc::Receiver<Job>>>,
    cur: Arc<Mutex<Cur>>,
    inner: Option<Inner>,
}

impl Scheduler for MetaSched {
    fn new_execution(&mut self) -> Option<Schedule> {
        // the previous execution (if any) is complete: report it
        if let Some(Inner::Record(mut s)) = self.inner.take() {
            // lets the inner scheduler notice its single iteration is used up (clears its
            // "failing seed" drop guard)
            let _ = s.new_execution();
        }
        finish_current(&self.cur, None);
        let job = {
            let rx = self.rx.lock().unwrap();
            rx.recv()
        };
        let Ok(job) = job else {
            return None; // the owner is gone: end the runner
        };
        let mut c = self.cur.lock().unwrap();
        c.f = Some(job.f);
        c.reply = Some(job.reply);
        c.trace = Trace::default();
        c.steps = 0;
        c.switches = 0;
        c.diverged = None;
        c.result = None;
        c.stats = None;
        let (inner, sched) = match &job.spec.kind {
            SchedKind::Random => {
                let mut s: Box<dyn Scheduler + Send> =
                    Box::new(RandomScheduler::new_from_seed(job.spec.seed, 1));
                let sch = s.new_execution();
                (Inner::Record(s), sch)
            }
            SchedKind::Pct(d) => {
                let mut s: Box<dyn Scheduler + Send> =
                    Box::new(PctScheduler::new_from_seed(job.spec.seed, (*d).max(1), 1));
                let sch = s.new_execution();
                (Inner::Record(s), sch)
            }
            SchedKind::Urw => {
                let mut s: Box<dyn Scheduler + Send> =
                    Box::new(UrwRandomScheduler::new_from_seed(job.spec.seed, 1));
                let sch = s.new_execution();
                (Inner::Record(s), sch)
            }
            SchedKind::Replay(t) => (
                Inner::Replay {
                    trace: t.clone(),
                    ti: 0,
                    ri: 0,
                    oi: 0,
                },
                Some(Schedule::new(0)),
            ),
            SchedKind::Sequential => unreachable!("sequential jobs never reach the simulation thread"),
        };
        c.spec = Some(job.spec);
        self.inner = Some(inner);
        sched.or(Some(Schedule::new(0)))
    }

    fn next_task(
        &mut self,
        runnable: &[&Task],
        current: Option<TaskId>,
        is_yielding: bool,
    ) -> Option<TaskId> {
        let mut c = self.cur.lock().unwrap();
        let chosen = match self.inner.as_mut().expect("execution in progress") {
            Inner::Record(s) => {
                let t = s.next_task(runnable, current, is_yielding)?;
                c.trace.tasks.push(usize::from(t) as u32);
                c.trace.order.push(true);
                t
            }
            Inner::Replay { trace, ti, oi, .. } => {
                let want = if *oi < trace.order.len() && trace.order[*oi] && *ti < trace.tasks.len() {
                    Some(trace.tasks[*ti] as usize)
                } else {
                    None
                };
                *oi += 1;
                *ti += 1;
                match want {
                    Some(w) if runnable.iter().any(|t| usize::from(t.id()) == w) => TaskId::from(w),
                    other => {
                        if c.diverged.is_none() {
                            c.diverged = Some(format!(
                                "step {}: trace wants task {:?}, runnable {:?}",
                                *oi - 1,
                                other,
                                runnable.iter().map(|t| usize::from(t.id())).collect::<Vec<_>>()
                            ));
                        }
                        // keep going deterministically so that the execution terminates
                        runnable[0].id()
                    }
                }
            }
        };
        c.steps += 1;
        if current.is_some() && current != Some(chosen) {
            c.switches += 1;
        }
        Some(chosen)
    }

    fn next_u64(&mut self) -> u64 {
        let mut c = self.cur.lock().unwrap();
        match self.inner.as_mut().expect("execution in progress") {
            Inner::Record(s) => {
                let v = s.next_u64();
                c.trace.randoms.push(v);
                c.trace.order.push(false);
                v
            }
            Inner::Replay { trace, ri, oi, .. } => {
                let ok = *oi < trace.order.len() && !trace.order[*oi];
                *oi += 1;
                if ok && *ri < trace.randoms.len() {
                    *ri += 1;
                    trace.randoms[*ri - 1]
                } else {
                    if c.diverged.is_none() {
                        c.diverged = Some(format!("step {}: unexpected random request", *oi - 1));
                    }
                    0
                }
            }
        }
    }
}

fn sim_thread_main(rx: std::sync::mpsc::Receiver<Job>) {
    let rx = Arc::new(Mutex::new(rx));
    let cur: Arc<Mutex<Cur>> = Arc::new(Mutex::new(Cur::default()));
    let mut config = shuttle::Config::new();
    config.stack_size = 2 << 20;
    config.failure_persistence = shuttle::FailurePersistence::None;
    config.max_steps = shuttle::MaxSteps::FailAfter(DEFAULT_MAX_STEPS);
    config.silence_warnings = true;
    loop {
        let cur_body = cur.clone();
        let body = move || {
            let (f, workers, per_op) = {
                let mut c = cur_body.lock().unwrap();
                let (workers, per_op) = {
                    let spec = c.spec.as_ref().expect("job spec");
                    (spec.workers, spec.per_op_switch)
                };
                (c.f.take().expect("job closure"), workers, per_op)
            };
            rsim::reset_stats();
            rsim::set_mode(rsim::Mode::Shuttle);
            rsim::set_workers(workers);
            PER_OP_SWITCH.with(|c| c.set(per_op));
            let r = catch(f);
            let stats = rsim::stats();
            rsim::set_mode(rsim::Mode::Sequential);
            let mut c = cur_body.lock().unwrap();
            c.result = Some(r);
            c.stats = Some(stats);
        };
        let sched = MetaSched {
            rx: rx.clone(),
            cur: cur.clone(),
            inner: None,
        };
        let cfg = config.clone();
        let run = catch(move || {
            shuttle::Runner::new(sched, cfg).run(body);
        });
        match run {
            Ok(()) => break, // channel closed
            Err(p) => {
                // an execution died (uncaught task panic, deadlock, step limit): report it to the
                // job in flight and start a fresh runner
                let stats = rsim::stats();
                rsim::set_mode(rsim::Mode::Sequential);
                {
                    let mut c = cur.lock().unwrap();
                    if c.stats.is_none() {
                        c.stats = Some(stats);
                    }
                }
                finish_current(&cur, Some(classify_panic(p)));
            }
        }
    }
}

thread_local! {
    static SIM_TX: RefCell<Option<std::sync::mpsc::Sender<Job>>> = const { RefCell::new(None) };
}

fn sim_sender() -> std::sync::mpsc::Sender<Job> {
    SIM_TX.with(|t| {
        let mut t = t.borrow_mut();
        if t.is_none() {
            let (tx, rx) = std::sync::mpsc::channel::<Job>();
            std::thread::Builder::new()
                .name("essim-sim".into())
                .stack_size(16 << 20)
                .spawn(move || sim_thread_main(rx))
                .expect("spawn simulation thread");
            *t = Some(tx);
        }
        t.as_ref().unwrap().clone()
    })
}

/// Run one execution under `spec`. `f` runs on the simulation thread (or inline for the
/// sequential schedule); whatever per-execution state it wants to report (event log, hook
/// state, fault counters) it must collect itself before returning.
pub fn run_sim<R, F>(spec: &SchedSpec, f: F) -> SimOutcome<R>
where
    R: Send + 'static,
    F: FnOnce() -> R + Send + 'static,
{
    if spec.kind == SchedKind::Sequential {
        rsim::reset_stats();
        rsim::set_workers(spec.workers);
        PER_OP_SWITCH.with(|c| c.set(spec.per_op_switch));
        rsim::set_mode(rsim::Mode::Sequential);
        let r = catch(f);
        let stats = rsim::stats();
        return SimOutcome {
            result: r.map_err(classify_panic),
            stats,
            trace: Trace::default(),
            steps: 0,
            context_switches: 0,
        };
    }
    let (rtx, rrx) = std::sync::mpsc::channel();
    let job = Job {
        spec: spec.clone(),
        f: Box::new(move || Box::new(f()) as AnyBox),
        reply: rtx,
    };
    sim_sender().send(job).expect("simulation thread alive");
    let jr = rrx.recv().expect("simulation thread replies");
    SimOutcome {
        result: jr.result.map(|b| *b.downcast::<R>().expect("result type")),
        stats: jr.stats,
        trace: jr.trace,
        steps: jr.steps,
        context_switches: jr.switches,
    }
}

pub fn classify_panic(p: PanicInfo) -> SimFailure {
    if p.message.contains("deadlock") {
        SimFailure::Deadlock(p.message)
    } else if p.message.contains("exceeded max_steps") || p.message.contains("max_steps") {
        SimFailure::StepLimit
    } else if p.message.contains("item budget exceeded") {
        SimFailure::ItemBudget
    } else {
        SimFailure::Panic(p)
    }
}
