//! Scenarios (what a replay file carries and what the minimiser shrinks) and the
//! per-property case generators for the checker-level properties C01–C04.

use crate::gen::{self, GenCfg};
use crate::model::{self, SolErr, Verdict};
use crate::oracle::{self, finding, ExecInfo, Finding};
use crate::rng::{derive, label, Rng};
use crate::runner::{SchedKind, SchedSpec};
use crate::store::Fault;
use crate::wl::Workload;
use serde::{Deserialize, Serialize};
use std::collections::{BTreeMap, BTreeSet};
use std::sync::Arc;

#[derive(Clone, Debug, Serialize, Deserialize, PartialEq)]
pub enum Scenario {
    /// C01/C03: the real checker under `spec` against the reference model + history invariants
    ModelEq { w: Workload, spec: SchedSpec },
    /// C01: two encodings of one DAG; `maps[p][i]` = index in `w2` of node `i` of predicate `p` in `w`
    AltNumbering {
        w: Workload,
        w2: Workload,
        maps: Vec<Vec<usize>>,
        spec: SchedSpec,
    },
    /// C02: result under `spec` against the sequential schedule
    Determinism { w: Workload, spec: SchedSpec },
    /// C04: `perm[i]` = original position of the solution placed at position `i`
    Permutation {
        w: Workload,
        perm: Vec<usize>,
        spec: SchedSpec,
    },
    /// C03 with arrival-ordered (transient) faults: relaxed oracle
    Transient { w: Workload, spec: SchedSpec },
    /// C02 (history): `w` is checked right after another set was checked in the same execution
    /// (same threads, same process state); its result must be the model's all the same
    AfterOther {
        first: Workload,
        w: Workload,
        spec: SchedSpec,
    },
}

#[derive(Default, Clone, Debug)]
pub struct Eval {
    pub finding: Option<Finding>,
    pub infos: Vec<ExecInfo>,
    /// free-form counters for the evidence
    pub notes: BTreeMap<&'static str, u64>,
}

impl Eval {
    fn note(&mut self, k: &'static str) {
        *self.notes.entry(k).or_default() += 1;
    }
}

pub fn random_spec(rng: &mut Rng, allow_sequential: bool) -> SchedSpec {
    let kind = match rng.below(20) {
        0 | 1 if allow_sequential => SchedKind::Sequential,
        0..=8 => SchedKind::Random,
        9..=15 => SchedKind::Pct(1 + rng.usize(4)),
        _ => SchedKind::Urw,
    };
    SchedSpec {
        kind,
        seed: rng.next_u64(),
        workers: *rng.pick(&[1usize, 2, 2, 3, 4, 4, 8, 16]),
        per_op_switch: rng.chance(1, 2),
    }
}

fn verdict_kind(v: &Verdict) -> String {
    match v {
        Verdict::Ok { .. } => "Ok".into(),
        Verdict::Err { .. } => "Err".into(),
        Verdict::Other(s) => s.clone(),
    }
}

/// Evaluate one scenario: a pure function of the scenario and of the code under test.
pub fn evaluate(sc: &Scenario) -> Eval {
    let mut ev = Eval::default();
    match sc {
        Scenario::ModelEq { w, spec } => {
            let (_m, mo) = oracle::run_model(w);
            let wa = Arc::new(w.clone());
            let (f, rr) = oracle::check_against_model(&wa, &mo, spec);
            ev.infos.push(rr.info);
            ev.finding = f;
            match &mo.expect {
                model::Expect::Ok { .. } => ev.note("model_ok"),
                model::Expect::Err { .. } => ev.note("model_err"),
            }
            if mo.sols.iter().any(|s| !s.deferred.is_empty()) {
                ev.note("has_deferred");
            }
            if mo.sols.iter().any(|s| !s.mutation_relevant.is_empty()) {
                ev.note("has_computed_mutations");
            }
            // reach probes for the rarer ingredients
            if w.stale_prelude {
                ev.note("cache_used_before_older_state");
            }
            if w.prefix_prelude {
                ev.note("cache_used_before_shorter_set");
            }
            if w.faults.iter().any(|f| matches!(f, Fault::Sparse)) {
                ev.note("sparse_device");
            }
            if let model::Expect::Err { sols } = &mo.expect {
                if sols.values().any(|e| matches!(e, model::ExpectErr::MutDecode | model::ExpectErr::MutDuplicate(_))) {
                    ev.note("undecodable_data_output");
                }
            }
        }
        Scenario::AltNumbering { w, w2, maps, spec } => {
            let a = oracle::run_real(&Arc::new(w.clone()), spec, false);
            let b = oracle::run_real(&Arc::new(w2.clone()), spec, false);
            ev.infos.push(a.info.clone());
            ev.infos.push(b.info.clone());
            ev.finding = match (&a.verdict, &b.verdict) {
                (Err(f), _) | (_, Err(f)) if f.class == "budget" => {
                    ev.note("budget_skipped");
                    None
                }
                (Err(f), _) | (_, Err(f)) => Some(f.clone()),
                (Ok(va), Ok(vb)) => compare_numberings(w, va, vb, maps)
                    .err()
                    .map(|m| finding("numbering-dependence", m)),
            };
        }
        Scenario::Determinism { w, spec } => {
            let wa = Arc::new(w.clone());
            let r0 = oracle::run_real(&wa, &SchedSpec::sequential(), false);
            ev.infos.push(r0.info.clone());
            match &r0.verdict {
                Err(_) => {
                    // an abnormal sequential result (panic, budget) is not a determinism matter
                    ev.note("sequential_abnormal");
                }
                Ok(v0) => {
                    let r = oracle::run_real(&wa, spec, false);
                    ev.infos.push(r.info.clone());
                    if r.info.multi_error_regions > 0 {
                        ev.note("several_children_failed");
                    }
                    ev.finding = match &r.verdict {
                        Err(f) if f.class == "harness-error" => Some(f.clone()),
                        Err(f) if f.class == "budget" => {
                            ev.note("budget_skipped");
                            None
                        }
                        Err(f) => Some(finding(
                            "schedule-dependence",
                            format!("sequential result {}, under {}: {}", verdict_kind(v0), spec.describe(), f.message),
                        )),
                        Ok(v) if v == v0 => None,
                        Ok(v) => Some(finding(
                            "schedule-dependence",
                            format!("sequential: {v0:?}\nunder {}: {v:?}", spec.describe()),
                        )),
                    };
                }
            }
        }
        Scenario::Permutation { w, perm, spec } => {
            let mut w2 = w.clone();
            w2.sols = perm.iter().map(|&i| w.sols[i].clone()).collect();
            // pure by-products: content address and set validation
            let (m1, m2) = (w.materialize(), w2.materialize());
            if essential_hash::content_addr(&m1.set) != essential_hash::content_addr(&m2.set) {
                ev.finding = Some(finding("order-dependence-address", "content address differs between permutations"));
                return ev;
            }
            let (c1, c2) = (
                essential_check::solution::check_set(&m1.set).map_err(|e| e.to_string()),
                essential_check::solution::check_set(&m2.set).map_err(|e| e.to_string()),
            );
            if c1.is_ok() != c2.is_ok() {
                ev.finding = Some(finding("order-dependence-check-set", format!("{c1:?} vs {c2:?}")));
                return ev;
            }
            if c1.is_err() {
                ev.note("set_rejected");
                return ev;
            }
            let a = oracle::run_real(&Arc::new(w.clone()), spec, false);
            let b = oracle::run_real(&Arc::new(w2), spec, false);
            ev.infos.push(a.info.clone());
            ev.infos.push(b.info.clone());
            ev.finding = match (&a.verdict, &b.verdict) {
                (Err(f), _) | (_, Err(f)) if f.class == "budget" => {
                    ev.note("budget_skipped");
                    None
                }
                (Err(f), _) | (_, Err(f)) => Some(f.clone()),
                (Ok(va), Ok(vb)) => compare_permuted(va, vb, perm)
                    .err()
                    .map(|m| finding("order-dependence", m)),
            };
        }
        Scenario::AfterOther { first, w, spec } => {
            let (_m, mo) = oracle::run_model(w);
            if mo.unusable.is_some() {
                ev.note("budget_skipped");
                return ev;
            }
            let rr = oracle::run_real_after(&Arc::new(first.clone()), &Arc::new(w.clone()), spec);
            ev.infos.push(rr.info.clone());
            ev.finding = match &rr.verdict {
                Err(f) if f.class == "budget" => None,
                Err(f) => Some(f.clone()),
                Ok(v) => model::matches(&mo.expect, v).err().map(|m| {
                    finding(
                        "history-dependence",
                        format!("checked right after another set on the same threads: {m}"),
                    )
                }),
            };
        }
        Scenario::Transient { w, spec } => {
            // reference: the same workload without the transient faults
            let mut clean = w.clone();
            clean.faults.retain(|f| !matches!(f, Fault::Transient { .. }));
            let (_m, mo) = oracle::run_model(&clean);
            let ids: BTreeSet<u32> = w
                .faults
                .iter()
                .filter_map(|f| match f {
                    Fault::Transient { id, .. } => Some(*id),
                    _ => None,
                })
                .collect();
            let rr = oracle::run_real(&Arc::new(w.clone()), spec, false);
            ev.infos.push(rr.info.clone());
            ev.finding = match &rr.verdict {
                Err(f) if f.class == "budget" => None,
                Err(f) => Some(f.clone()),
                Ok(v) => {
                    if rr.info.faults.transient == 0 {
                        ev.note("transient_not_fired");
                        model::matches(&mo.expect, v).err().map(|m| finding("model-mismatch", m))
                    } else if model::matches(&mo.expect, v).is_ok() {
                        // the failed read belonged to nothing that mattered (e.g. a beacon of a node
                        // that fails anyway) or was absorbed
                        ev.note("transient_absorbed");
                        None
                    } else {
                        // may fail — but only with the injected error, never with a wrong value
                        match v {
                            Verdict::Err { sols, .. } => {
                                let injected = sols.values().any(|e| match e {
                                    SolErr::Program(nodes) => nodes.values().any(|k| {
                                        ids.iter().any(|id| k.ends_with(&format!("StateRead#{id}")))
                                            || k.ends_with(":Compute")
                                    }),
                                    _ => false,
                                });
                                if injected {
                                    ev.note("transient_surfaced");
                                    None
                                } else {
                                    Some(finding(
                                        "fault-wrong-result",
                                        format!("transient read error injected, result is neither the fault-free one nor the injected error: {v:?}"),
                                    ))
                                }
                            }
                            other => Some(finding(
                                "fault-wrong-result",
                                format!("transient read error injected, result {other:?} differs from the fault-free expectation {:?}", mo.expect),
                            )),
                        }
                    }
                }
            };
        }
    }
    ev
}

fn compare_numberings(
    w: &Workload,
    a: &Verdict,
    b: &Verdict,
    maps: &[Vec<usize>],
) -> Result<(), String> {
    match (a, b) {
        (
            Verdict::Ok { gas: g1, computed: c1 },
            Verdict::Ok { gas: g2, computed: c2 },
        ) => {
            if g1 != g2 {
                return Err(format!("gas {g1} vs {g2}"));
            }
            for (i, (x, y)) in c1.iter().zip(c2).enumerate() {
                let (mut x, mut y) = (x.clone(), y.clone());
                x.sort();
                y.sort();
                if x != y {
                    return Err(format!("computed mutations of solution {i} differ: {x:?} vs {y:?}"));
                }
            }
            Ok(())
        }
        (Verdict::Err { sols: s1, .. }, Verdict::Err { sols: s2, .. }) => {
            if s1.keys().collect::<Vec<_>>() != s2.keys().collect::<Vec<_>>() {
                return Err(format!("failing solutions {:?} vs {:?}", s1.keys(), s2.keys()));
            }
            for (k, e1) in s1 {
                let e2 = &s2[k];
                // whatever the code under test reports must not make the comparison itself fail
                let Some(map) = w.sols.get(*k as usize).and_then(|s| maps.get(s.pred)) else {
                    return Err(format!("a failing solution index {k} that the set does not have"));
                };
                let at = |n: &usize| map.get(*n).copied().unwrap_or(usize::MAX);
                let ok = match (e1, e2) {
                    (SolErr::InvalidGraph, SolErr::InvalidGraph) => true,
                    (SolErr::Unsatisfied(x), SolErr::Unsatisfied(y)) => {
                        x.iter().map(at).collect::<BTreeSet<_>>() == *y
                    }
                    (SolErr::Program(x), SolErr::Program(y)) => {
                        if w.collect_all {
                            x.iter()
                                .map(|(n, k)| (at(n), k.clone()))
                                .collect::<BTreeMap<_, _>>()
                                == *y
                        } else {
                            true // which single failure is reported may follow the numbering
                        }
                    }
                    // a solution with several undecodable outputs: which of them is met first
                    // follows the order in which the outputs are listed, which no statement fixes
                    (SolErr::MutDecode | SolErr::MutDuplicate(_), SolErr::MutDecode | SolErr::MutDuplicate(_)) => true,
                    _ => false,
                };
                if !ok {
                    return Err(format!("solution {k}: {e1:?} vs {e2:?} (node map {map:?})"));
                }
            }
            Ok(())
        }
        _ => Err(format!("{a:?}\nvs\n{b:?}")),
    }
}

fn compare_permuted(a: &Verdict, b: &Verdict, perm: &[usize]) -> Result<(), String> {
    match (a, b) {
        (
            Verdict::Ok { gas: g1, computed: c1 },
            Verdict::Ok { gas: g2, computed: c2 },
        ) => {
            if g1 != g2 {
                return Err(format!("total gas {g1} vs {g2}"));
            }
            for (new_pos, &old) in perm.iter().enumerate() {
                if c1[old] != c2[new_pos] {
                    return Err(format!(
                        "computed mutations of the solution at {old} (now {new_pos}): {:?} vs {:?}",
                        c1[old], c2[new_pos]
                    ));
                }
            }
            Ok(())
        }
        (Verdict::Err { sols: s1, .. }, Verdict::Err { sols: s2, .. })
            if s1.values().chain(s2.values()).any(|e| matches!(e, SolErr::MutDecode | SolErr::MutDuplicate(_))) =>
        {
            // undecodable data outputs are reported for one solution only (the first one met):
            // with several such solutions, which one is named follows the order of the set. The
            // statement asks for the same verdict; both must be mutation errors.
            let both = s1.values().all(|e| matches!(e, SolErr::MutDecode | SolErr::MutDuplicate(_)))
                && s2.values().all(|e| matches!(e, SolErr::MutDecode | SolErr::MutDuplicate(_)));
            if both {
                Ok(())
            } else {
                Err(format!("errors {s1:?} vs {s2:?}"))
            }
        }
        (Verdict::Err { sols: s1, .. }, Verdict::Err { sols: s2, .. }) => {
            let mapped: BTreeMap<u16, &SolErr> = perm
                .iter()
                .enumerate()
                .filter_map(|(new_pos, &old)| s2.get(&(new_pos as u16)).map(|e| (old as u16, e)))
                .collect();
            let lhs: BTreeMap<u16, &SolErr> = s1.iter().map(|(k, v)| (*k, v)).collect();
            if lhs != mapped {
                return Err(format!("errors {s1:?} vs (mapped back) {mapped:?}"));
            }
            Ok(())
        }
        _ => Err(format!("verdict {} vs {}", verdict_kind(a), verdict_kind(b))),
    }
}

// ---------------------------------------------------------------------------------
// case generators

#[derive(Clone, Copy, Debug, PartialEq, Eq, Hash, PartialOrd, Ord)]
pub enum Batch {
    C01Model,
    C01Faulty,
    C01History,
    C02Determinism,
    C02History,
    C02Conflict,
    C07Checker,
    C03Overlay,
    C03Faulty,
    C03Transient,
    C04Permutation,
    C04Conflict,
}

impl Batch {
    pub fn name(&self) -> &'static str {
        match self {
            Batch::C01Model => "c01-model",
            Batch::C01Faulty => "c01-model-f1",
            Batch::C01History => "c01-history",
            Batch::C02Determinism => "c02-determinism",
            Batch::C02History => "c02-history",
            Batch::C02Conflict => "c02-conflict",
            Batch::C07Checker => "c07-checker",
            Batch::C03Overlay => "c03-overlay",
            Batch::C03Faulty => "c03-overlay-f1",
            Batch::C03Transient => "c03-transient-f2",
            Batch::C04Permutation => "c04-permutation",
            Batch::C04Conflict => "c04-conflict",
        }
    }
}

fn add_f1(rng: &mut Rng, case: &mut gen::Case) {
    add_faults(rng, case, false)
}

/// `sparse_ok`: one case in four gets, instead of bad keys, a device that leaves out the keys
/// it has no value for (answers shorter than requested, F3 device-wide). The overlay the
/// two-pass entry point builds must then still give every key of a touched contract a value.
fn add_faults(rng: &mut Rng, case: &mut gen::Case, sparse_ok: bool) {
    let cands = gen::fault_candidates(&case.abs);
    if sparse_ok && rng.chance(1, 3) {
        // a device-wide oddity instead of bad keys: short answers, or refusal of ranges that
        // run past the last key
        case.abs.faults = vec![if rng.chance(1, 2) { Fault::Sparse } else { Fault::WrapError { id: 7300 } }];
        if matches!(case.abs.faults[0], Fault::WrapError { .. }) {
            // aim half of the reads at the end of the key space: the last key alone (served) or
            // a range running past it (refused)
            for p in case.abs.preds.iter_mut() {
                for r in p.roles.iter_mut() {
                    let spec = match r {
                        gen::Role::Read(s) => s,
                        gen::Role::ReadCheck { spec, .. } => spec,
                        _ => continue,
                    };
                    if rng.chance(1, 2) {
                        spec.key = if rng.chance(1, 2) { vec![] } else { vec![essential_types::Word::MAX] };
                        spec.count = 1 + rng.usize(2);
                        spec.room = 12;
                    }
                }
            }
        }
        case.abs.entry = crate::wl::Entry::TwoPass;
        gen::finalize(&mut case.abs, &case.numberings);
        case.w = gen::realize(&case.abs, &case.numberings);
        if let Some((alts, w2)) = &mut case.alt {
            *w2 = gen::realize(&case.abs, alts);
        }
        return;
    }
    if cands.is_empty() {
        return;
    }
    let n = if rng.chance(7, 10) { 1 } else { 2 };
    let mut faults = Vec::new();
    for i in 0..n {
        let (c, k) = rng.pick(&cands).clone();
        faults.push(Fault::BadKey {
            view: None,
            contract: c,
            key: k,
            id: 7000 + i as u32,
        });
    }
    case.abs.faults = faults;
    // slots were computed without faults; recompute (a failing read changes what runs)
    gen::finalize(&mut case.abs, &case.numberings);
    case.w = gen::realize(&case.abs, &case.numberings);
    if let Some((alts, w2)) = &mut case.alt {
        *w2 = gen::realize(&case.abs, alts);
    }
}

fn maps_of(case: &gen::Case, alts: &[crate::graph::Numbering]) -> Vec<Vec<usize>> {
    case.numberings
        .iter()
        .zip(alts)
        .map(|(n1, n2)| {
            let mut m = vec![0; n1.len()];
            for a in 0..n1.len() {
                m[n1[a]] = n2[a];
            }
            m
        })
        .collect()
}

/// The scenarios of one generated case of `batch`.
pub fn scenarios(batch: Batch, run_seed: u64) -> (Vec<Scenario>, u64) {
    let mut wl_rng = Rng::new(derive(run_seed, &[label("workload")]));
    let mut fault_rng = Rng::new(derive(run_seed, &[label("faults")]));
    let mut knob_rng = Rng::new(derive(run_seed, &[label("knobs")]));
    let mut sched_rng = Rng::new(derive(run_seed, &[label("schedule")]));
    let mut cfg = GenCfg::swarm(&mut knob_rng);
    match batch {
        Batch::C03Overlay | Batch::C03Faulty | Batch::C03Transient | Batch::C04Permutation | Batch::C04Conflict | Batch::C02Conflict => {
            cfg.post_reads = true;
            cfg.data_out = true;
            cfg.failures = knob_rng.chance(1, 8);
            cfg.soup = false;
        }
        _ => {}
    }
    if matches!(batch, Batch::C04Permutation | Batch::C04Conflict | Batch::C02Conflict) {
        cfg.max_sols = cfg.max_sols.max(2 + knob_rng.usize(4));
    }
    let want_alt = matches!(batch, Batch::C01Model | Batch::C01Faulty);
    let mut case = gen::gen_case(&mut wl_rng, &cfg, want_alt);
    let shape_hash = crate::rng::label(&format!("{:?}{:?}", case.abs.preds.iter().map(|p| (&p.dag, &p.roles)).collect::<Vec<_>>(), case.numberings));
    let mut out = Vec::new();
    match batch {
        Batch::C02Conflict => {
            // Two members proposing different values for one (contract, key) are accepted by set
            // validation (known finding D9 is about the *order* of the set); for a fixed order the
            // post-state is what it is and must not depend on the schedule either.
            inject_conflict(&mut fault_rng, &mut case);
            for _ in 0..8 {
                out.push(Scenario::Determinism {
                    w: case.w.clone(),
                    spec: random_spec(&mut sched_rng, false),
                });
            }
        }
        Batch::C01Model | Batch::C01Faulty | Batch::C03Overlay | Batch::C03Faulty | Batch::C07Checker => {
            if matches!(batch, Batch::C01Faulty | Batch::C03Faulty) {
                add_faults(&mut fault_rng, &mut case, batch == Batch::C03Faulty);
            }
            if matches!(batch, Batch::C01Model) && fault_rng.chance(1, 4) {
                // raw mode: the graph is whatever the slicing rule says the arrays mean
                let n_mut = 1 + fault_rng.usize(2);
                for _ in 0..n_mut {
                    gen::corrupt_graph(&mut fault_rng, &mut case.w);
                }
                case.alt = None;
            }
            let n_specs = 2;
            for _ in 0..n_specs {
                out.push(Scenario::ModelEq {
                    w: case.w.clone(),
                    spec: random_spec(&mut sched_rng, true),
                });
            }
            if let Some((alts, w2)) = &case.alt {
                out.push(Scenario::AltNumbering {
                    w: case.w.clone(),
                    w2: w2.clone(),
                    maps: maps_of(&case, alts),
                    spec: random_spec(&mut sched_rng, true),
                });
            }
        }
        Batch::C02Determinism => {
            if fault_rng.chance(1, 3) {
                add_f1(&mut fault_rng, &mut case);
            }
            for _ in 0..8 {
                out.push(Scenario::Determinism {
                    w: case.w.clone(),
                    spec: random_spec(&mut sched_rng, false),
                });
            }
        }
        Batch::C02History | Batch::C01History => {
            // two unrelated sets, the second one asking PredicateExists for solutions that exist
            let mut cfg2 = cfg.clone();
            cfg2.pex = true;
            cfg2.pex_heavy = true;
            cfg2.soup = false;
            let other = gen::gen_case(&mut wl_rng, &cfg, false);
            let case2 = gen::gen_case(&mut wl_rng, &cfg2, false);
            let _ = case;
            out.push(Scenario::AfterOther {
                first: other.w,
                w: case2.w,
                spec: random_spec(&mut sched_rng, true),
            });
            return (out, shape_hash);
        }
        Batch::C03Transient => {
            // the n-th device request fails once; n drawn inside the number of requests the
            // fault-free sequential run makes
            let probe = oracle::run_real(&Arc::new(case.w.clone()), &SchedSpec::sequential(), false);
            let reads = probe.info.reads.max(1);
            let mut w = case.w.clone();
            w.faults.push(Fault::Transient {
                nth: fault_rng.below(reads),
                id: 8001,
            });
            out.push(Scenario::Transient {
                w,
                spec: random_spec(&mut sched_rng, true),
            });
        }
        Batch::C04Permutation | Batch::C04Conflict => {
            if batch == Batch::C04Permutation && fault_rng.chance(1, 4) {
                add_faults(&mut fault_rng, &mut case, true);
            }
            if batch == Batch::C04Conflict {
                inject_conflict(&mut fault_rng, &mut case);
            } else if fault_rng.chance(1, 4) {
                // sets are merged from independent submissions: the same solution may arrive twice
                let i = fault_rng.usize(case.w.sols.len());
                let dup = case.w.sols[i].clone();
                let at = fault_rng.usize(case.w.sols.len() + 1);
                case.w.sols.insert(at, dup);
            }
            let n = case.w.sols.len();
            for _ in 0..3 {
                let mut perm: Vec<usize> = (0..n).collect();
                fault_rng.shuffle(&mut perm);
                if perm.iter().enumerate().all(|(i, p)| i == *p) && n > 1 {
                    perm.swap(0, 1);
                }
                out.push(Scenario::Permutation {
                    w: case.w.clone(),
                    perm,
                    spec: random_spec(&mut sched_rng, true),
                });
            }
        }
    }
    (out, shape_hash)
}

/// Make two solutions of one contract propose different values for the same key (C04's
/// "at most one value per contract and key" clause), read by a post-state check leaf.
fn inject_conflict(rng: &mut Rng, case: &mut gen::Case) {
    let n = case.abs.sols.len();
    if n < 2 {
        return;
    }
    // find two solutions on the same contract, else retarget the second one's predicate contract
    let a = 0;
    let b = 1 + rng.usize(n - 1);
    let ca = case.abs.preds[case.abs.sols[a].pred].contract;
    let pb = case.abs.sols[b].pred;
    if pb != case.abs.sols[a].pred {
        case.abs.preds[pb].contract = ca;
    }
    let key = vec![10, 2];
    for s in [a, b] {
        case.abs.sols[s].muts.retain(|(k, _)| *k != key);
    }
    case.abs.sols[a].muts.push((key.clone(), vec![0x0C0F_0001]));
    case.abs.sols[b].muts.push((key.clone(), vec![0x0C0F_0002]));
    // make sure somebody reads it from the post state
    for p in case.abs.preds.iter_mut() {
        for r in p.roles.iter_mut() {
            if let gen::Role::ReadCheck { spec, .. } = r {
                if spec.post {
                    spec.key = key.clone();
                    spec.count = 1;
                    spec.room = 8;
                    spec.target = gen::ReadTarget::Extern(ca);
                }
            }
        }
    }
    gen::finalize(&mut case.abs, &case.numberings);
    case.w = gen::realize(&case.abs, &case.numberings);
}

// ---------------------------------------------------------------------------------
// the checker family as seen by the driver

use crate::driver::{BatchPlan, CaseOut, KnownFinding, PropText};
use serde_json::{json, Value};

#[derive(Clone, Debug, Serialize, Deserialize)]
pub enum Payload {
    Checker(Scenario),
}

fn batch_of(name: &str) -> Option<Batch> {
    [
        Batch::C01Model,
        Batch::C01Faulty,
        Batch::C01History,
        Batch::C02Determinism,
        Batch::C02History,
        Batch::C02Conflict,
        Batch::C07Checker,
        Batch::C03Overlay,
        Batch::C03Faulty,
        Batch::C03Transient,
        Batch::C04Permutation,
        Batch::C04Conflict,
    ]
    .into_iter()
    .find(|b| b.name() == name)
}

pub fn plan(prop: &str, tier: &str) -> Vec<BatchPlan> {
    let q = tier != "thorough";
    let mk = |b: Batch, quick: u64, thorough: u64, faulty: bool| BatchPlan {
        name: b.name().to_string(),
        cases: if q { quick } else { thorough },
        faulty,
    };
    match prop {
        "C01" => vec![
            mk(Batch::C01Model, 24_000, 1_500_000, false),
            mk(Batch::C01Faulty, 8_000, 500_000, true),
            // the verdict is a function of the inputs of *this* call: the same reference model
            // must hold for a set that is checked right after another one in the same execution
            mk(Batch::C01History, 3_000, 200_000, false),
        ],
        "C02" => vec![
            mk(Batch::C02Determinism, 8_000, 600_000, false),
            mk(Batch::C02History, 4_000, 300_000, false),
            mk(Batch::C02Conflict, 1_500, 100_000, false),
        ],
        // gas at the checker's level: the reference model's total and, independently, the number
        // of operations the VMs of the execution stepped (one unit each)
        "C07" => vec![mk(Batch::C07Checker, 6_000, 400_000, false)],
        "C03" => vec![
            mk(Batch::C03Overlay, 20_000, 1_200_000, false),
            mk(Batch::C03Faulty, 8_000, 500_000, true),
            mk(Batch::C03Transient, 8_000, 500_000, true),
        ],
        "C04" => vec![
            mk(Batch::C04Permutation, 12_000, 800_000, false),
            mk(Batch::C04Conflict, 600, 20_000, false),
        ],
        _ => vec![],
    }
}

fn sample_of(sc: &Scenario) -> Value {
    let (w, spec) = match sc {
        Scenario::ModelEq { w, spec }
        | Scenario::AltNumbering { w, spec, .. }
        | Scenario::Determinism { w, spec }
        | Scenario::Permutation { w, spec, .. }
        | Scenario::Transient { w, spec }
        | Scenario::AfterOther { w, spec, .. } => (w, spec),
    };
    json!({
        "scenario": match sc {
            Scenario::ModelEq{..} => "model equality + history invariants",
            Scenario::AltNumbering{..} => "two numberings of one DAG",
            Scenario::Determinism{..} => "schedule vs sequential",
            Scenario::Permutation{..} => "permuted solution order",
            Scenario::Transient{..} => "transient device error, relaxed oracle",
            Scenario::AfterOther{..} => "checked right after another set in the same execution",
        },
        "schedule": spec.describe(),
        "entry": format!("{:?}", w.entry),
        "collect_all_failures": w.collect_all,
        "solutions": w.sols.iter().map(|s| json!({"predicate": s.pred, "declared_mutations": s.muts.len()})).collect::<Vec<_>>(),
        "predicates": w.preds.iter().map(|p| json!({"edge_starts": p.nodes.iter().map(|n| n.0).collect::<Vec<_>>(), "edges": p.edges})).collect::<Vec<_>>(),
        "pre_state_entries": w.pre.len(),
        "faults": w.faults,
        "first_program": w.programs.first().map(|p| crate::ops::disasm(p)),
    })
}

pub fn run_case(_prop: &str, batch: &str, run_seed: u64) -> CaseOut {
    let b = batch_of(batch).expect("known batch");
    let (scs, shape_hash) = scenarios(b, run_seed);
    let mut out = CaseOut {
        shape_hash,
        ..Default::default()
    };
    for sc in &scs {
        let ev = evaluate(sc);
        out.infos.extend(ev.infos);
        for (k, v) in ev.notes {
            *out.notes.entry(k.to_string()).or_default() += v;
        }
        if out.sample.is_none() {
            out.sample = Some(sample_of(sc));
        }
        if let Some(f) = ev.finding {
            out.findings
                .push((f, serde_json::to_value(Payload::Checker(sc.clone())).unwrap()));
            break;
        }
    }
    out
}

pub fn replay(payload: &Value) -> Result<Option<Finding>, String> {
    let p: Payload = serde_json::from_value(payload.clone()).map_err(|e| e.to_string())?;
    match p {
        Payload::Checker(sc) => Ok(evaluate(&sc).finding),
    }
}

pub fn shrink_payload(payload: &Value, class: &str) -> (Value, Value) {
    let Ok(Payload::Checker(sc)) = serde_json::from_value::<Payload>(payload.clone()) else {
        return (payload.clone(), json!({"minimised": false}));
    };
    let s = crate::shrink::shrink(&sc, class, std::time::Duration::from_secs(25));
    let size = |sc: &Scenario| -> Value {
        let w = match sc {
            Scenario::ModelEq { w, .. }
            | Scenario::AltNumbering { w, .. }
            | Scenario::Determinism { w, .. }
            | Scenario::Permutation { w, .. }
            | Scenario::AfterOther { w, .. }
            | Scenario::Transient { w, .. } => w,
        };
        json!({"solutions": w.sols.len(), "program_bytes": w.programs.iter().map(|p| p.len()).sum::<usize>(), "pre_entries": w.pre.len(), "faults": w.faults.len()})
    };
    let info = json!({
        "minimised": true,
        "candidates_tried": s.steps_tried,
        "candidates_kept": s.steps_kept,
        "schedule_irrelevant": s.schedule_irrelevant,
        "before": size(&sc),
        "after": size(&s.scenario),
    });
    (
        serde_json::to_value(Payload::Checker(s.scenario)).unwrap(),
        info,
    )
}

/// Structural matchers for the findings listed in /verif/known_findings.json.
pub fn known(prop: &str, payload: &Value, class: &str, known: &[KnownFinding]) -> Option<String> {
    let Ok(Payload::Checker(sc)) = serde_json::from_value::<Payload>(payload.clone()) else {
        return None;
    };
    for k in known.iter().filter(|k| k.property == prop && k.status == "known") {
        let hit = match k.matcher.as_str() {
            // two members of one contract propose different values for one key, and the two-pass
            // verdict differs between permutations of the set
            "conflicting-proposals" => {
                class == "order-dependence"
                    && match &sc {
                        Scenario::Permutation { w, .. } => {
                            let mut seen: BTreeMap<([u8; 32], Vec<i64>), &Vec<i64>> = BTreeMap::new();
                            let mut conflict = false;
                            for s in &w.sols {
                                let c = w.preds[s.pred].contract;
                                for (key, val) in &s.muts {
                                    if let Some(prev) = seen.insert((c, key.clone()), val) {
                                        if prev != val {
                                            conflict = true;
                                        }
                                    }
                                }
                            }
                            conflict
                        }
                        _ => false,
                    }
            }
            _ => false,
        };
        if hit {
            return Some(k.id.clone());
        }
    }
    None
}

pub fn describe(prop: &str) -> PropText {
    let real_vs_stub = json!({
        "real (working tree of /repo)": ["essential-check", "essential-vm", "essential-asm", "essential-types", "essential-hash", "sha2", "ed25519-dalek", "secp256k1"],
        "stub": {"rayon": "rayon-sim: every parallel region runs as simulated tasks under shuttle's seeded schedulers (or inline in sequential mode)"},
        "simulated seams (ours)": ["state device (StateRead) with fault injection and event log", "program and predicate stores", "hook H1 per-op switch points and bound monitors", "hook H2 lazy-cache sync point"],
        "treated as atomic": ["std::sync::OnceLock", "std::sync::Arc"],
    });
    let common = vec![
        "node programs are executed by the real VM as a black box inside the reference model (op semantics are not this property's subject)".to_string(),
        "rayon's documented guarantees are all the code may rely on; the stub over-approximates real rayon's schedules".to_string(),
        "switch points are seam calls, sync points and (per-run knob) VM op boundaries; OnceLock/Arc are atomic".to_string(),
        "inputs and schedules are sampled from one seed; a clean batch is evidence, not proof".to_string(),
    ];
    let rule = match prop {
        "C01" => "cases = generated predicate DAGs (structured with two numberings, or raw/corrupted encodings) x solution sets x run configuration; each case runs the real checker under 2-3 seeded schedules against M-twopass plus the history invariants over the device log; a third batch (c01-history) checks a set right after an unrelated set in the same execution (same simulated threads, same process state, addresses reused) against the same model. distinct = distinct (workload shape hash, interleaving hash of region start/finish order, device event-log hash); non-trivial = the execution had at least one parallel region with a scheduling choice and at least one context switch (and, in the F1 batch, a fault actually fired)",
        "C02" => "cases = generated workloads (graphs, compute with several failing children, PredicateExists, F1 faults); each is run once sequentially and then under 8 seeded schedules (random/PCT depth 1-4/URW, 1..16 workers, op- or seam-granular switching); results must be identical. distinct/non-trivial as for C01",
        "C03" => "cases = workloads with pre-state, declared and computed mutations (incl. deletions, carry, wrap-around, external contracts) and post/pre reads at random graph positions; oracle M-overlay/M-twopass + history invariants; three batches: fault-free, F1 persistent bad keys (exact oracle), F2 transient error (relaxed oracle: fault-free result or the injected error, never a wrong value). distinct/non-trivial as for C01, fault batches additionally need a fired fault",
        "C07" => "checker-level batch (c07-checker): the workloads of C01 under seeded schedules; a successful check must report exactly the reference model's total gas and, independently of the model, exactly the number of operations its VMs stepped (every node program is metered at one unit per operation; hook H1 counts, compute children included)",
        "C04" => "cases = accepted solution sets with 2+ members; each is checked under 3 seeded permutations x seeded schedules: content address, check_set verdict, two-pass verdict, total gas and per-solution computed mutations must not change. A dedicated sub-batch builds sets whose members propose different values for one (contract,key). distinct/non-trivial as for C01",
        _ => "",
    };
    PropText {
        level: "exploration",
        rule: rule.to_string(),
        assumptions: common,
        real_vs_stub,
    }
}

pub const FAMILY: crate::driver::Family = crate::driver::Family {
    plan,
    run_case,
    replay,
    shrink: shrink_payload,
    known,
    describe,
};
