//! Batch driver: worker processes (one slice of case indices each), merge, minimise,
//! fresh-process replay confirmation, known-findings matching, evidence file.
//!
//! Everything a case does is a function of (VERIF_SEED, property, batch, case index);
//! results are merged in case-index order, so the outcome does not depend on the number
//! of workers or on the OS scheduler.

use crate::oracle::{ExecInfo, Finding};
use crate::rng::{derive, label};
use serde::{Deserialize, Serialize};
use serde_json::{json, Value};
use std::collections::{BTreeMap, BTreeSet, HashSet};
use std::io::Write;
use std::path::{Path, PathBuf};
use std::process::{Command, Stdio};
use std::time::Instant;

#[derive(Clone, Debug, Serialize, Deserialize)]
pub struct BatchPlan {
    pub name: String,
    pub cases: u64,
    /// does this batch inject faults (its non-trivial rule then also asks for a fired fault)
    pub faulty: bool,
}

/// What one case produced.
#[derive(Default)]
pub struct CaseOut {
    /// (finding, replay payload)
    pub findings: Vec<(Finding, Value)>,
    pub infos: Vec<ExecInfo>,
    pub notes: BTreeMap<String, u64>,
    pub shape_hash: u64,
    pub sample: Option<Value>,
    /// executions that are not shuttle/sequential runs of the system (e.g. decoder calls)
    pub extra_evaluations: u64,
    /// extra distinct non-trivial keys contributed by cases that have no schedule dimension
    pub extra_nontrivial: Vec<u64>,
    /// the family counts non-trivial executions itself (through `extra_nontrivial`): the
    /// driver's default rule is not applied on top
    pub own_nontrivial_rule: bool,
    /// hash of the case's observable outcome (cross-build comparison, C05)
    pub outcome_hash: Option<u64>,
}

/// The per-property machinery the driver needs.
pub struct Family {
    pub plan: fn(prop: &str, tier: &str) -> Vec<BatchPlan>,
    pub run_case: fn(prop: &str, batch: &str, run_seed: u64) -> CaseOut,
    /// evaluate a replay payload: the finding it produces now, if any
    pub replay: fn(payload: &Value) -> Result<Option<Finding>, String>,
    /// minimise a payload while `class` persists
    pub shrink: fn(payload: &Value, class: &str) -> (Value, Value),
    /// known-finding matcher: Some(id) when the payload+class is a listed finding
    pub known: fn(prop: &str, payload: &Value, class: &str, known: &[KnownFinding]) -> Option<String>,
    pub describe: fn(prop: &str) -> PropText,
}

pub struct PropText {
    pub level: &'static str,
    pub rule: String,
    pub assumptions: Vec<String>,
    pub real_vs_stub: Value,
}

#[derive(Clone, Debug, Serialize, Deserialize)]
pub struct KnownFinding {
    pub id: String,
    pub property: String,
    /// "known" (recorded, not repaired) or "fixed"
    pub status: String,
    pub matcher: String,
    pub what: String,
    #[serde(default)]
    pub commit: Option<String>,
}

#[derive(Serialize, Deserialize, Default)]
struct WorkerOut {
    counters: BTreeMap<String, u64>,
    violations: Vec<ViolationRec>,
    samples: Vec<Value>,
    shapes: Vec<u64>,
    interleavings: Vec<u64>,
    nontrivial: Vec<u64>,
    #[serde(default)]
    outcomes: Vec<(String, u64, u64)>,
}

#[derive(Clone, Serialize, Deserialize)]
struct ViolationRec {
    batch: String,
    case: u64,
    run_seed: u64,
    class: String,
    message: String,
    payload: Value,
}

pub fn verif_seed() -> u64 {
    std::env::var("VERIF_SEED")
        .ok()
        .and_then(|s| s.parse::<u64>().ok())
        .unwrap_or(1)
}

pub fn case_seed(seed: u64, prop: &str, batch: &str, case: u64) -> u64 {
    derive(seed, &[label(prop), label(batch), case])
}

fn add(c: &mut BTreeMap<String, u64>, k: &str, v: u64) {
    let e = c.entry(k.to_string()).or_default();
    *e = e.saturating_add(v);
}

fn mix2(a: u64, b: u64) -> u64 {
    derive(a, &[b])
}

/// Worker: run the cases `wi, wi+nw, …` of every batch of the plan, starting at
/// (`from_batch`, `from_case`) when resuming after a crash. Output is flushed in parts so
/// that a later crash loses little.
#[allow(clippy::too_many_arguments)]
pub fn worker(
    fam: &Family,
    prop: &str,
    tier: &str,
    seed: u64,
    wi: u64,
    nw: u64,
    outdir: &Path,
    resume: Option<(String, u64)>,
    gen: u32,
) {
    let plan = (fam.plan)(prop, tier);
    let mut out = WorkerOut::default();
    let cur_path = outdir.join(format!("w{wi}.cur"));
    let mut shapes: HashSet<u64> = HashSet::new();
    let mut inter: HashSet<u64> = HashSet::new();
    let mut nontrivial: HashSet<u64> = HashSet::new();
    let mut part = 0u32;
    let mut since_flush = 0u64;
    let mut last_flush = Instant::now();
    let mut skipping = resume.is_some();
    for b in &plan {
        let mut case = wi;
        if skipping {
            let (rb, rc) = resume.as_ref().unwrap();
            if *rb != b.name {
                continue;
            }
            skipping = false;
            case = *rc;
        }
        while case < b.cases {
            // crash marker: which case this process is working on
            let _ = std::fs::write(&cur_path, format!("{} {}", b.name, case));
            let rs = case_seed(seed, prop, &b.name, case);
            crate::c06::CASE_INDEX.with(|c| c.set(case));
            let co = (fam.run_case)(prop, &b.name, rs);
            add(&mut out.counters, "cases", 1);
            add(&mut out.counters, &format!("cases[{}]", b.name), 1);
            add(&mut out.counters, "evaluations", co.infos.len() as u64 + co.extra_evaluations);
            shapes.insert(co.shape_hash);
            for k in &co.extra_nontrivial {
                nontrivial.insert(*k);
            }
            for i in &co.infos {
                add(&mut out.counters, "sim_steps", i.steps);
                add(&mut out.counters, "context_switches", i.context_switches);
                add(&mut out.counters, "vm_ops", i.ops);
                add(&mut out.counters, "device_reads", i.reads);
                add(&mut out.counters, "program_fetches", i.fetches);
                add(&mut out.counters, "regions_with_choice", i.regions_multi);
                add(&mut out.counters, "item_overlaps", i.overlaps);
                add(&mut out.counters, "out_of_order_starts", i.out_of_order);
                add(&mut out.counters, "items_skipped_after_error", i.skipped);
                add(&mut out.counters, "regions_with_several_errors", i.multi_error_regions);
                add(&mut out.counters, "lazy_cache_sync_points", i.lazy_sync);
                add(&mut out.counters, "fault_fired[F1 bad key]", i.faults.bad_key);
                add(&mut out.counters, "fault_fired[F2 transient]", i.faults.transient);
                add(&mut out.counters, "fault_fired[F3 short read]", i.faults.short);
                add(&mut out.counters, "fault_fired[F4 long read]", i.faults.long);
                add(&mut out.counters, "fault_fired[F5 hostile shape]", i.faults.hostile);
                add(&mut out.counters, "fault_fired[device call budget]", i.faults.budget);
                add(&mut out.counters, "fault_fired[oversize request]", i.faults.too_many);
                if i.context_switches > 0 {
                    inter.insert(mix2(co.shape_hash, i.order_hash));
                }
                let fault_ok = !b.faulty
                    || i.faults.bad_key + i.faults.transient + i.faults.short + i.faults.long + i.faults.hostile > 0;
                if !co.own_nontrivial_rule && i.regions_multi > 0 && i.context_switches > 0 && fault_ok {
                    nontrivial.insert(mix2(mix2(co.shape_hash, i.order_hash), i.event_hash));
                }
            }
            for (k, v) in &co.notes {
                add(&mut out.counters, &format!("note[{k}]"), *v);
            }
            if let Some(h) = co.outcome_hash {
                out.outcomes.push((b.name.clone(), case, h));
            }
            if out.samples.len() < 2 && part == 0 {
                if let Some(s) = co.sample {
                    out.samples.push(json!({"batch": b.name, "case": case, "run_seed": rs, "case_detail": s}));
                }
            }
            for (f, payload) in co.findings {
                add(&mut out.counters, &format!("finding[{}]", f.class), 1);
                if out.violations.len() < 6 {
                    out.violations.push(ViolationRec {
                        batch: b.name.clone(),
                        case,
                        run_seed: rs,
                        class: f.class,
                        message: f.message,
                        payload,
                    });
                }
            }
            case += nw;
            since_flush += 1;
            if since_flush >= 20_000 || last_flush.elapsed().as_secs() >= 5 {
                out.shapes = shapes.drain().collect();
                out.interleavings = inter.drain().collect();
                out.nontrivial = nontrivial.drain().collect();
                flush_part(outdir, wi, gen, part, &out);
                out = WorkerOut::default();
                part += 1;
                since_flush = 0;
                last_flush = Instant::now();
            }
        }
    }
    out.shapes = shapes.into_iter().collect();
    out.interleavings = inter.into_iter().collect();
    out.nontrivial = nontrivial.into_iter().collect();
    flush_part(outdir, wi, gen, part, &out);
    let _ = std::fs::remove_file(&cur_path);
}

fn flush_part(outdir: &Path, wi: u64, gen: u32, part: u32, out: &WorkerOut) {
    let tmp = outdir.join(format!("w{wi}.g{gen}.p{part}.tmp"));
    let f = std::fs::File::create(&tmp).expect("worker output");
    serde_json::to_writer(std::io::BufWriter::new(f), out).expect("worker output");
    std::fs::rename(&tmp, outdir.join(format!("w{wi}.g{gen}.p{part}.json"))).expect("worker output");
}

/// CPU seconds (user + system) a process has used so far; 0 when it cannot be read.
fn cpu_seconds(pid: u32) -> f64 {
    let Ok(stat) = std::fs::read_to_string(format!("/proc/{pid}/stat")) else {
        return 0.0;
    };
    // fields after the parenthesised command name: state is #3, utime #14, stime #15
    let Some(rest) = stat.rsplit_once(')').map(|x| x.1) else {
        return 0.0;
    };
    let f: Vec<&str> = rest.split_whitespace().collect();
    let ticks = |i: usize| f.get(i).and_then(|s| s.parse::<f64>().ok()).unwrap_or(0.0);
    (ticks(11) + ticks(12)) / 100.0
}

fn stall_cpu_limit() -> f64 {
    std::env::var("VERIF_STALL_CPU_SECS").ok().and_then(|s| s.parse().ok()).unwrap_or(400.0)
}

fn repo_head() -> String {
    Command::new("git")
        .args(["-C", "/repo", "describe", "--always", "--dirty"])
        .output()
        .ok()
        .map(|o| String::from_utf8_lossy(&o.stdout).trim().to_string())
        .unwrap_or_default()
}

pub fn load_known() -> Vec<KnownFinding> {
    std::fs::read_to_string("/verif/known_findings.json")
        .ok()
        .and_then(|s| serde_json::from_str::<Value>(&s).ok())
        .and_then(|v| serde_json::from_value(v["findings"].clone()).ok())
        .unwrap_or_default()
}

/// Re-run, in this process, the slice of cases a worker ran (`wi, wi+nw, …` of every batch in
/// plan order) from `from` (batch, case) — or from the worker's very first case — up to and
/// including `upto`, and return the finding of class `class` that `upto` produces, if any.
/// This is the replay of a *history-dependent* violation: one that a case shows only after the
/// process has executed other cases before it (state of the code under test that outlives a
/// call: a `static`, a thread-local, an address-keyed memo).
#[allow(clippy::too_many_arguments)]
pub fn run_history(
    fam: &Family,
    prop: &str,
    tier: &str,
    seed: u64,
    wi: u64,
    nw: u64,
    from: Option<(String, u64)>,
    upto: (&str, u64),
    class: &str,
) -> (Option<Finding>, u64) {
    let plan = (fam.plan)(prop, tier);
    let mut skipping = from.is_some();
    let mut ran = 0u64;
    for b in &plan {
        let mut case = wi;
        if skipping {
            let (fb, fc) = from.as_ref().unwrap();
            if *fb != b.name {
                continue;
            }
            skipping = false;
            case = *fc;
        }
        while case < b.cases {
            let rs = case_seed(seed, prop, &b.name, case);
            crate::c06::CASE_INDEX.with(|c| c.set(case));
            let co = (fam.run_case)(prop, &b.name, rs);
            ran += 1;
            if b.name == upto.0 && case == upto.1 {
                return (co.findings.into_iter().map(|(f, _)| f).find(|f| f.class == class), ran);
            }
            case += nw;
        }
        if b.name == upto.0 {
            break;
        }
    }
    (None, ran)
}

fn history_doc(prop: &str, tier: &str, seed: u64, nw: u64, v: &ViolationRec, from: Option<(String, u64)>) -> Value {
    json!({
        "property": prop,
        "tier": tier,
        "verif_seed": seed,
        "batch": v.batch,
        "case": v.case,
        "run_seed": v.run_seed,
        "class": v.class,
        "message": format!("[history-dependent: the case shows this only after the process has run the preceding cases of its slice — state of the code under test outlives a call] {}", v.message),
        "repo": repo_head(),
        "replay": {"History": {"prop": prop, "tier": tier, "seed": seed, "wi": v.case % nw, "nw": nw,
                               "from": from.map(|(b, c)| json!([b, c])), "batch": v.batch, "case": v.case}},
        "single_case_payload": v.payload,
    })
}

/// Parent: run the property's plan on `nw` worker processes. Returns the process exit code.
pub fn run(fam: &Family, prop: &str, tier: &str, nw: u64) -> i32 {
    let t0 = Instant::now();
    let seed = verif_seed();
    println!("VERIF_SEED={seed} property={prop} tier={tier} workers={nw} repo={}", repo_head());
    let exe = std::env::current_exe().expect("own path");
    let outdir = PathBuf::from(format!("/verif/sim/target/tmp/{prop}-{tier}-{}", std::process::id()));
    let _ = std::fs::remove_dir_all(&outdir);
    std::fs::create_dir_all(&outdir).expect("tmp dir");
    // scratch of this run goes away however the run ends
    struct Cleanup(PathBuf);
    impl Drop for Cleanup {
        fn drop(&mut self) {
            let _ = std::fs::remove_dir_all(&self.0);
        }
    }
    let _cleanup = Cleanup(outdir.clone());
    let plan = (fam.plan)(prop, tier);
    let spawn = |wi: u64, resume: Option<(String, u64)>, gen: u32| {
        let log = std::fs::OpenOptions::new()
            .create(true)
            .append(true)
            .open(outdir.join(format!("w{wi}.log")))
            .expect("log");
        let mut cmd = Command::new(&exe);
        cmd.args([
            "worker",
            prop,
            tier,
            &seed.to_string(),
            &wi.to_string(),
            &nw.to_string(),
            outdir.to_str().unwrap(),
            &gen.to_string(),
        ]);
        if let Some((b, c)) = &resume {
            cmd.args([b.as_str(), &c.to_string()]);
        }
        cmd.stdout(Stdio::from(log.try_clone().unwrap()))
            .stderr(Stdio::from(log))
            .spawn()
            .expect("spawn worker")
    };
    let mut children: Vec<(u64, u32, std::process::Child)> = (0..nw).map(|wi| (wi, 0u32, spawn(wi, None, 0))).collect();
    let mut merged = WorkerOut::default();
    let mut harness_errors: Vec<String> = Vec::new();
    let mut shapes: BTreeSet<u64> = BTreeSet::new();
    let mut inter: BTreeSet<u64> = BTreeSet::new();
    let mut nontrivial: BTreeSet<u64> = BTreeSet::new();
    // watchdog: a worker that burns this much *CPU time* on one case is stuck inside the code
    // under test (an endless loop no budget sees): it is killed and the case reported. CPU time,
    // not wall-clock time: on a loaded machine a healthy case may take minutes of wall-clock time.
    let stall_limit = stall_cpu_limit();
    let mut last_seen: BTreeMap<u64, (String, f64, Instant)> = BTreeMap::new();
    // … and a worker that sits on one case without using any CPU at all is blocked (a real
    // lock taken twice on the simulation thread, a deadlock in the code under test)
    let mut last_cpu_progress: BTreeMap<u64, (f64, Instant)> = BTreeMap::new();
    let blocked_limit = std::time::Duration::from_secs(
        std::env::var("VERIF_BLOCKED_SECS").ok().and_then(|s| s.parse().ok()).unwrap_or(120),
    );
    let mut hung: BTreeSet<u64> = BTreeSet::new();
    let mut deaths = 0u32;
    while !children.is_empty() {
        let mut finished: Option<usize> = None;
        for (ix, (wi, _gen, ch)) in children.iter_mut().enumerate() {
            if ch.try_wait().expect("wait").is_some() {
                finished = Some(ix);
                break;
            }
            let cur = std::fs::read_to_string(outdir.join(format!("w{wi}.cur"))).unwrap_or_default();
            let cpu = cpu_seconds(ch.id());
            let e = last_seen.entry(*wi).or_insert_with(|| (cur.clone(), cpu, Instant::now()));
            let p = last_cpu_progress.entry(*wi).or_insert((cpu, Instant::now()));
            if cpu - p.0 > 0.02 || e.0 != cur {
                *p = (cpu, Instant::now());
            }
            let blocked = p.1.elapsed() > blocked_limit;
            if e.0 != cur {
                *e = (cur, cpu, Instant::now());
            } else if !e.0.is_empty() && (cpu - e.1 > stall_limit || blocked) {
                *p = (cpu, Instant::now());
                let _ = ch.kill();
                hung.insert(*wi);
                *e = (String::new(), cpu, Instant::now());
            }
        }
        let Some(ix) = finished else {
            std::thread::sleep(std::time::Duration::from_millis(50));
            continue;
        };
        let (wi, gen, mut ch) = children.swap_remove(ix);
        let status = ch.wait().expect("wait");
        last_seen.remove(&wi);
        if status.success() {
            continue;
        }
        let was_hung = hung.remove(&wi);
        // the worker died: the case it was working on killed the process (abort, signal)
        let cur = std::fs::read_to_string(outdir.join(format!("w{wi}.cur"))).unwrap_or_default();
        let mut it = cur.split_whitespace();
        let (b, c) = (it.next().unwrap_or("?").to_string(), it.next().and_then(|c| c.parse::<u64>().ok()));
        let log = std::fs::read_to_string(outdir.join(format!("w{wi}.log"))).unwrap_or_default();
        let tail: String = log
            .lines()
            .filter(|l| !l.trim_start().starts_with("at ") && !l.trim_start().chars().next().map(|c| c.is_ascii_digit()).unwrap_or(false))
            .rev()
            .take(4)
            .collect::<Vec<_>>()
            .into_iter()
            .rev()
            .collect::<Vec<_>>()
            .join(" | ");
        match c {
            Some(case) if log.contains("essim: uncaught panic") => {
                harness_errors.push(format!("worker {wi} panicked in harness code at batch {b} case {case}: {tail}"));
            }
            Some(case) => {
                let rs = case_seed(seed, prop, &b, case);
                merged.violations.push(ViolationRec {
                    batch: b.clone(),
                    case,
                    run_seed: rs,
                    class: if was_hung { "hang".into() } else { "process-abort".into() },
                    message: if was_hung {
                        format!("the case did not finish: it either burned more than {stall_limit:.0}s of CPU time without hitting any budget, or sat blocked without using CPU for {}s (deadlock)", blocked_limit.as_secs())
                    } else {
                        format!("the process died while running this case ({status}): {tail}")
                    },
                    payload: json!({"Case": {"prop": prop, "batch": b, "run_seed": rs, "case": case}}),
                });
                *merged.counters.entry("finding[process-abort]".into()).or_default() += 1;
                *merged.counters.entry("cases".into()).or_default() += 1;
                deaths += 1;
                if deaths >= 8 {
                    // enough evidence: do not spend hours dying case after case
                    for (_, _, c) in children.iter_mut() {
                        let _ = c.kill();
                        let _ = c.wait();
                    }
                    children.clear();
                    println!("  note: {deaths} cases killed their worker; the rest of the run was abandoned");
                } else if gen < 200 {
                    // carry on with the rest of this worker's slice
                    let _ = std::fs::rename(outdir.join(format!("w{wi}.log")), outdir.join(format!("w{wi}.g{gen}.deadlog")));
                    children.push((wi, gen + 1, spawn(wi, Some((b, case + nw)), gen + 1)));
                } else {
                    harness_errors.push(format!("worker {wi} died more than 200 times"));
                }
            }
            None => harness_errors.push(format!("worker {wi} failed before its first case ({status}): {tail}")),
        }
    }
    // merge every part every worker generation wrote
    let mut parts: Vec<PathBuf> = std::fs::read_dir(&outdir)
        .map(|d| d.filter_map(|e| e.ok()).map(|e| e.path()).filter(|p| p.extension().map(|x| x == "json").unwrap_or(false)).collect())
        .unwrap_or_default();
    parts.sort();
    for p in parts {
        let w: WorkerOut = match std::fs::read(&p).ok().and_then(|b| serde_json::from_slice(&b).ok()) {
            Some(w) => w,
            None => {
                harness_errors.push(format!("unreadable worker output {}", p.display()));
                continue;
            }
        };
        for (k, v) in w.counters {
            let e = merged.counters.entry(k).or_default();
            *e = e.saturating_add(v);
        }
        merged.violations.extend(w.violations);
        merged.outcomes.extend(w.outcomes);
        if merged.samples.len() < 3 {
            merged.samples.extend(w.samples);
        }
        shapes.extend(w.shapes);
        inter.extend(w.interleavings);
        nontrivial.extend(w.nontrivial);
    }
    if !harness_errors.is_empty() {
        for e in &harness_errors {
            println!("HARNESS-ERROR: {e}");
        }
        return 2;
    }
    // deterministic order: by plan order, then case index
    let order: BTreeMap<String, usize> = plan.iter().enumerate().map(|(i, b)| (b.name.clone(), i)).collect();
    merged
        .violations
        .sort_by_key(|v| (order.get(&v.batch).copied().unwrap_or(usize::MAX), v.case));

    // ---- triage: one report per violation class, lowest case first
    let known = load_known();
    let mut seen_classes: BTreeSet<String> = BTreeSet::new();
    let mut violation_lines: Vec<String> = Vec::new();
    let mut known_lines: BTreeSet<String> = BTreeSet::new();
    let mut known_replays: Vec<String> = Vec::new();
    let mut unreproduced: Vec<String> = Vec::new();
    let mut reproduced_any = false;
    let mut exit = 0;
    std::fs::create_dir_all("/verif/replays").ok();
    for v in &merged.violations {
        if v.class == "harness-error" {
            println!("HARNESS-ERROR: batch {} case {}: {}", v.batch, v.case, v.message);
            return 2;
        }
        let key = format!("{}:{}", v.batch, v.class);
        if !seen_classes.insert(key) {
            continue;
        }
        // minimise (not possible for a case that kills the process)
        let (payload, min_info) = if v.class == "process-abort" || v.class == "hang" {
            (v.payload.clone(), json!({"minimised": false, "why": "the case kills the process"}))
        } else {
            (fam.shrink)(&v.payload, &v.class)
        };
        let file = format!("/verif/replays/{prop}-{}-{}-{}.json", v.batch, v.case, v.class);
        let doc = json!({
            "property": prop,
            "tier": tier,
            "verif_seed": seed,
            "batch": v.batch,
            "case": v.case,
            "run_seed": v.run_seed,
            "class": v.class,
            "message": v.message,
            "repo": repo_head(),
            "minimisation": min_info,
            "replay": payload,
        });
        std::fs::write(&file, serde_json::to_vec_pretty(&doc).unwrap()).expect("replay file");
        // confirm in a fresh process. The only nondeterminism the simulator does not own is the
        // per-process hash seed of std's HashMap/HashSet: a violation that reproduces in some
        // fresh processes but not in all is reported, annotated as process-random.
        let mut hits = 0;
        let mut tries = 0;
        let mut last = String::new();
        for _ in 0..8 {
            tries += 1;
            let st = Command::new(&exe).args(["replay", &file]).output().expect("replay process");
            let so = String::from_utf8_lossy(&st.stdout).to_string();
            last = so.lines().last().unwrap_or("").to_string();
            if so.lines().any(|l| l.starts_with("REPLAY reproduced") && l.contains(&format!("class={}", v.class))) {
                hits += 1;
                if tries == 1 {
                    break;
                }
            }
        }
        if hits == 0 && v.class != "process-abort" && v.class != "hang" {
            // The case alone is clean in a fresh process. Does it show the violation again when a
            // fresh process first runs what the worker had run before it? Then the result of a
            // call depends on the calls made before it: state of the code under test outlives a
            // call (a `static`, a thread-local, a memo keyed by an address that gets reused).
            // That is a violation in its own right (same inputs, different result), replayable as
            // a history. The shortest reproducing suffix of the history is searched for.
            let hfile = format!("/verif/replays/{prop}-{}-{}-{}-history.json", v.batch, v.case, v.class);
            let try_from = |from: Option<(String, u64)>| -> bool {
                let doc = history_doc(prop, tier, seed, nw, v, from);
                std::fs::write(&hfile, serde_json::to_vec_pretty(&doc).unwrap()).expect("replay file");
                let st = Command::new(&exe).args(["replay", &hfile]).output().expect("replay process");
                let so = String::from_utf8_lossy(&st.stdout).to_string();
                so.lines().any(|l| l.starts_with("REPLAY reproduced") && l.contains(&format!("class={}", v.class)))
            };
            if try_from(None) {
                let wi = v.case % nw;
                let mut best: Option<(String, u64)> = None;
                let mut m = 1u64;
                while m <= 4096 {
                    let back = m * nw;
                    if v.case < wi + back {
                        break;
                    }
                    let from = Some((v.batch.clone(), v.case - back));
                    if try_from(from.clone()) {
                        best = from;
                        break;
                    }
                    m *= 2;
                }
                // leave the file of the shortest reproducing history behind
                let doc = history_doc(prop, tier, seed, nw, v, best.clone());
                std::fs::write(&hfile, serde_json::to_vec_pretty(&doc).unwrap()).expect("replay file");
                let _ = std::fs::remove_file(&file);
                reproduced_any = true;
                violation_lines.push(format!("VIOLATION property={prop} replay={hfile}"));
                println!(
                    "  class={} batch={} case={} [history-dependent{}]: {}",
                    v.class,
                    v.batch,
                    v.case,
                    best.map(|(_, c)| format!(", needs the cases from {c} on in the same process")).unwrap_or_else(|| ", needs the worker's whole slice before it".into()),
                    v.message.lines().next().unwrap_or("")
                );
                exit = 1;
                continue;
            }
            let _ = std::fs::remove_file(&hfile);
        }
        if hits == 0 {
            // An execution that ended abnormally (deadlock, panic) can leave process-wide state of
            // the code under test behind (a `static`), so that a *later* case in the same worker
            // process fails in a way a fresh process does not. Such a finding is not reported; it is
            // a harness error only if nothing else of this run reproduces either.
            unreproduced.push(format!(
                "violation {} of batch {} case {} did not reproduce from {file} in {tries} fresh processes: {last}",
                v.class, v.batch, v.case
            ));
            let _ = std::fs::remove_file(&file);
            continue;
        }
        reproduced_any = true;
        if tries > 1 {
            println!("  note: {file} reproduced in {hits} of {tries} fresh processes: process-random (depends on hash iteration order)");
        }
        match (fam.known)(prop, &payload, &v.class, &known) {
            Some(id) => {
                let k = known.iter().find(|k| k.id == id).unwrap();
                known_lines.insert(format!("KNOWN-FINDING: property={prop} {} {}", k.id, k.what));
                known_replays.push(file.clone());
            }
            None => {
                violation_lines.push(format!("VIOLATION property={prop} replay={file}"));
                println!("  class={} batch={} case={} : {}", v.class, v.batch, v.case, v.message.lines().next().unwrap_or(""));
                exit = 1;
            }
        }
    }
    if !unreproduced.is_empty() {
        if !reproduced_any {
            for u in &unreproduced {
                println!("HARNESS-ERROR: {u}");
            }
            return 2;
        }
        for u in &unreproduced {
            println!("  note (not reported): {u}");
        }
    }
    for l in &known_lines {
        println!("{l}");
    }
    for l in &violation_lines {
        println!("{l}");
    }

    // ---- evidence
    let wall = t0.elapsed().as_secs_f64();
    let text = (fam.describe)(prop);
    let evals = merged.counters.get("evaluations").copied().unwrap_or(0);
    let cov = json!({
        "evaluations": evals,
        "distinct_nontrivial": nontrivial.len(),
        "rule": text.rule,
        "samples": merged.samples,
        "cases": merged.counters.get("cases").copied().unwrap_or(0),
        "batches": plan,
        "distinct_workload_shapes": shapes.len(),
        "distinct_interleavings": inter.len(),
        "simulated_steps": merged.counters.get("sim_steps").copied().unwrap_or(0),
        "runs_per_hour": if wall > 0.0 { (evals as f64 / wall * 3600.0) as u64 } else { 0 },
        "seeds_per_hour": if wall > 0.0 { (merged.counters.get("cases").copied().unwrap_or(0) as f64 / wall * 3600.0) as u64 } else { 0 },
        "counters": merged.counters,
        "real_vs_stub": text.real_vs_stub,
        "known_findings_seen": known_lines.iter().collect::<Vec<_>>(),
        "known_finding_replays": known_replays,
        "violation_replays": violation_lines,
        "exhaustive": false,
    });
    let ev = json!({
        "property_id": prop,
        "tier": tier,
        "seed": seed,
        "level": text.level,
        "coverage": cov,
        "assumptions": text.assumptions,
        "wall_s": wall,
        "violations": violation_lines.len(),
        "repo": repo_head(),
    });
    std::fs::create_dir_all("/verif/evidence").ok();
    let mut f = std::fs::File::create(format!("/verif/evidence/{prop}.json")).expect("evidence file");
    f.write_all(&serde_json::to_vec_pretty(&ev).unwrap()).unwrap();
    let _ = std::fs::remove_dir_all(&outdir);
    println!(
        "{prop} {tier}: {} cases, {evals} simulated runs, {} distinct non-trivial, {} violation(s), {} known finding(s), {:.1}s",
        merged.counters.get("cases").copied().unwrap_or(0),
        nontrivial.len(),
        violation_lines.len(),
        known_lines.len(),
        wall
    );
    exit
}

/// `essim replay <file>`: exit 1 and print the class when the violation reproduces.
pub fn replay_file(fam: &Family, path: &str) -> i32 {
    let doc: Value = match std::fs::read(path).ok().and_then(|b| serde_json::from_slice(&b).ok()) {
        Some(d) => d,
        None => {
            println!("REPLAY error: cannot read {path}");
            return 2;
        }
    };
    let want = doc["class"].as_str().unwrap_or("").to_string();
    if want == "process-abort" || want == "hang" {
        // re-run the case in a child process and see whether it dies (or hangs) again
        let exe = std::env::current_exe().expect("own path");
        let child = Command::new(&exe)
            .args(["case", doc["replay"]["Case"]["prop"].as_str().unwrap_or(""), doc["replay"]["Case"]["batch"].as_str().unwrap_or(""), &doc["replay"]["Case"]["run_seed"].to_string(), &doc["replay"]["Case"]["case"].to_string()])
            .stdout(Stdio::null())
            .stderr(Stdio::null())
            .spawn();
        let mut child = match child {
            Ok(c) => c,
            Err(e) => {
                println!("REPLAY error: {e}");
                return 2;
            }
        };
        let limit = stall_cpu_limit();
        let mut progress = (0.0f64, Instant::now());
        loop {
            match child.try_wait() {
                Ok(Some(s)) => {
                    return if want == "process-abort" && !s.success() && s.code().map(|c| c != 1 && c != 0).unwrap_or(true) {
                        println!("REPLAY reproduced class=process-abort ({s})");
                        1
                    } else {
                        println!("REPLAY not reproduced: case exited with {s}");
                        0
                    };
                }
                Ok(None) => {
                    let cpu = cpu_seconds(child.id());
                    if cpu - progress.0 > 0.02 {
                        progress = (cpu, Instant::now());
                    }
                    let blocked = progress.1.elapsed().as_secs() > std::env::var("VERIF_BLOCKED_SECS").ok().and_then(|s| s.parse().ok()).unwrap_or(120);
                    if cpu > limit || blocked {
                        let _ = child.kill();
                        let _ = child.wait();
                        return if want == "hang" {
                            println!("REPLAY reproduced class=hang (no result: over the CPU limit or blocked)");
                            1
                        } else {
                            println!("REPLAY not reproduced: case hangs instead of dying");
                            0
                        };
                    }
                    std::thread::sleep(std::time::Duration::from_millis(50));
                }
                Err(e) => {
                    println!("REPLAY error: {e}");
                    return 2;
                }
            }
        }
    }
    if let Some(h) = doc["replay"].get("History") {
        let from = h["from"].as_array().and_then(|a| Some((a.first()?.as_str()?.to_string(), a.get(1)?.as_u64()?)));
        let (f, ran) = run_history(
            fam,
            h["prop"].as_str().unwrap_or(""),
            h["tier"].as_str().unwrap_or("quick"),
            h["seed"].as_u64().unwrap_or(1),
            h["wi"].as_u64().unwrap_or(0),
            h["nw"].as_u64().unwrap_or(16).max(1),
            from,
            (h["batch"].as_str().unwrap_or(""), h["case"].as_u64().unwrap_or(0)),
            &want,
        );
        return match f {
            Some(f) => {
                println!("REPLAY reproduced class={} (after a history of {ran} cases in this process) message={}", f.class, f.message.lines().next().unwrap_or(""));
                1
            }
            None => {
                println!("REPLAY clean: the recorded history ({ran} cases) does not end in the violation on this tree");
                0
            }
        };
    }
    match (fam.replay)(&doc["replay"]) {
        Ok(Some(f)) => {
            if f.class == want {
                println!("REPLAY reproduced class={} message={}", f.class, f.message.lines().next().unwrap_or(""));
            } else {
                println!("REPLAY different class={} (file says {want}) message={}", f.class, f.message.lines().next().unwrap_or(""));
            }
            1
        }
        Ok(None) => {
            println!("REPLAY clean: the recorded violation does not occur on this tree");
            0
        }
        Err(e) => {
            println!("REPLAY error: {e}");
            2
        }
    }
}

/// `essim digest <PROP> <n> <stride>`: run the first `n` cases of every batch of the quick
/// plan in this process, visiting them in an order determined by `stride`, and print a
/// digest of everything observable about each case. Two processes with different strides
/// must print the same digest: cases are independent of each other, of the visiting order
/// and of the process (determinism proof, see tools/selftest.sh).
pub fn digest(fam: &Family, prop: &str, n: u64, stride: u64) -> i32 {
    let seed = verif_seed();
    let plan = (fam.plan)(prop, "quick");
    let mut rows: Vec<(String, u64, u64)> = Vec::new();
    for b in &plan {
        let m = n.min(b.cases);
        if m == 0 {
            continue;
        }
        // a permutation of 0..m: i -> (i * stride') mod m with stride' coprime to m
        let mut st = stride.max(1);
        while gcd(st, m) != 1 {
            st += 1;
        }
        for i in 0..m {
            let case = (i * st) % m;
            let rs = case_seed(seed, prop, &b.name, case);
            crate::c06::CASE_INDEX.with(|c| c.set(case));
            let co = (fam.run_case)(prop, &b.name, rs);
            let mut h = label(&format!(
                "{:?}{:?}{:?}{}",
                co.findings.iter().map(|(f, _)| (&f.class, &f.message)).collect::<Vec<_>>(),
                co.notes,
                co.outcome_hash,
                co.shape_hash
            ));
            for inf in &co.infos {
                h = derive(h, &[inf.steps, inf.context_switches, inf.order_hash, inf.event_hash, inf.ops, inf.reads]);
            }
            rows.push((b.name.clone(), case, h));
        }
    }
    rows.sort();
    let mut d = 0u64;
    for (b, c, h) in &rows {
        d = derive(d, &[label(b), *c, *h]);
    }
    println!("digest={d:016x} cases={}", rows.len());
    0
}

fn gcd(a: u64, b: u64) -> u64 {
    if b == 0 {
        a
    } else {
        gcd(b, a % b)
    }
}

/// `essim outcomes <PROP> <batch> <n>`: one line per case with the hash of its observable
/// outcome — compared between build configurations (C05: checked, wrapping, dev).
pub fn outcomes(fam: &Family, prop: &str, batch: &str, n: u64, stride: u64) -> i32 {
    let seed = verif_seed();
    for case in (0..n).map(|i| i * stride.max(1)) {
        let rs = case_seed(seed, prop, batch, case);
        crate::c06::CASE_INDEX.with(|c| c.set(case));
        let co = (fam.run_case)(prop, batch, rs);
        let f: Vec<&str> = co.findings.iter().map(|(f, _)| f.class.as_str()).collect();
        println!("{case} {:016x} {}", co.outcome_hash.unwrap_or(0), f.join(","));
    }
    0
}
