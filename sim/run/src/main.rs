fn main(){}
