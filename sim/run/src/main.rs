//! essim — entry point of the E1 simulation engine.
//!   essim run <PROP> <quick|thorough>     run the property's batches (parent process)
//!   essim worker …                         (internal) one worker slice
//!   essim replay <file>                    re-run one recorded violation
//!   essim case <PROP> <batch> <run_seed>   run a single generated case in this process
use simcore::driver::{self, Family};
use std::alloc::{GlobalAlloc, Layout, System};
use std::sync::atomic::Ordering;

/// Seam S6: the allocator. Every request is forwarded to the system allocator; the largest
/// single request is recorded so that an attacker-sized allocation is seen even when it
/// happens to succeed (a failing one aborts the process, which the driver attributes to
/// the case that was running).
struct SimAlloc;
unsafe impl GlobalAlloc for SimAlloc {
    unsafe fn alloc(&self, l: Layout) -> *mut u8 {
        simcore::c06::MAX_ALLOC_REQUEST.fetch_max(l.size(), Ordering::Relaxed);
        System.alloc(l)
    }
    unsafe fn dealloc(&self, p: *mut u8, l: Layout) {
        System.dealloc(p, l)
    }
    unsafe fn alloc_zeroed(&self, l: Layout) -> *mut u8 {
        simcore::c06::MAX_ALLOC_REQUEST.fetch_max(l.size(), Ordering::Relaxed);
        System.alloc_zeroed(l)
    }
    unsafe fn realloc(&self, p: *mut u8, l: Layout, new_size: usize) -> *mut u8 {
        simcore::c06::MAX_ALLOC_REQUEST.fetch_max(new_size, Ordering::Relaxed);
        System.realloc(p, l, new_size)
    }
}
#[global_allocator]
static ALLOC: SimAlloc = SimAlloc;

fn family(prop: &str) -> Option<&'static Family> {
    match prop {
        "C02" => Some(&simcore::combined::FAMILY_C02),
        "C01" | "C03" | "C04" => Some(&simcore::props::FAMILY),
        "C07" => Some(&simcore::combined::FAMILY_C07),
        "C05" | "C10" | "C11" => Some(&simcore::vmprops::FAMILY),
        "C20" => Some(&locksim::c20::FAMILY),
        "C06" => Some(&simcore::c06::FAMILY),
        _ => None,
    }
}

fn family_of_payload(doc: &serde_json::Value) -> Option<&'static Family> {
    doc["property"].as_str().and_then(family)
}

fn main() {
    // the schedulers must only ever be seeded by us
    std::env::remove_var("SHUTTLE_RANDOM_SEED");
    simcore::runner::install_panic_hook();
    simcore::hooks::install();
    let args: Vec<String> = std::env::args().collect();
    let code = match args.get(1).map(|s| s.as_str()) {
        Some("run") if args.len() >= 4 => match family(&args[2]) {
            Some(f) => {
                let nw = std::env::var("VERIF_WORKERS").ok().and_then(|s| s.parse().ok()).unwrap_or(16);
                driver::run(f, &args[2], &args[3], nw)
            }
            None => {
                eprintln!("unknown property {}", args[2]);
                2
            }
        },
        Some("worker") if args.len() >= 9 => {
            let f = family(&args[2]).expect("family");
            let resume = match (args.get(9), args.get(10)) {
                (Some(b), Some(c)) => Some((b.clone(), c.parse().unwrap())),
                _ => None,
            };
            driver::worker(
                f,
                &args[2],
                &args[3],
                args[4].parse().unwrap(),
                args[5].parse().unwrap(),
                args[6].parse().unwrap(),
                std::path::Path::new(&args[7]),
                resume,
                args[8].parse().unwrap(),
            );
            0
        }
        Some("digest") if args.len() >= 5 => match family(&args[2]) {
            Some(f) => driver::digest(f, &args[2], args[3].parse().unwrap(), args[4].parse().unwrap()),
            None => 2,
        },
        Some("outcomes") if args.len() >= 5 => match family(&args[2]) {
            Some(f) => driver::outcomes(f, &args[2], &args[3], args[4].parse().unwrap(), args.get(5).and_then(|s| s.parse().ok()).unwrap_or(1)),
            None => 2,
        },
        Some("replay") if args.len() >= 3 => {
            let doc: serde_json::Value = std::fs::read(&args[2])
                .ok()
                .and_then(|b| serde_json::from_slice(&b).ok())
                .unwrap_or(serde_json::Value::Null);
            match family_of_payload(&doc) {
                Some(f) => driver::replay_file(f, &args[2]),
                None => {
                    println!("REPLAY error: no property in {}", args[2]);
                    2
                }
            }
        }
        Some("case") if args.len() >= 5 => {
            let f = family(&args[2]).expect("family");
            if let Some(c) = args.get(5).and_then(|c| c.parse::<u64>().ok()) {
                simcore::c06::CASE_INDEX.with(|x| x.set(c));
            }
            let out = (f.run_case)(&args[2], &args[3], args[4].parse().unwrap());
            for (fi, _) in &out.findings {
                println!("FINDING class={} {}", fi.class, fi.message);
            }
            if out.findings.is_empty() { 0 } else { 1 }
        }
        _ => {
            eprintln!("usage: essim run <PROP> <quick|thorough> | replay <file> | case <PROP> <batch> <run_seed>");
            2
        }
    };
    std::process::exit(code);
}
