//! Reads /repo/crates/lock/src/lib.rs from the working tree, drops crate-level inner
//! attributes and `//!` docs (not legal inside an included module) and writes the rest —
//! the real source, untouched — to OUT_DIR. The synchronisation primitives are swapped
//! by *name resolution*, not by editing the text: the including module (src/lib.rs)
//! defines local `std` and `core` modules whose `sync`, `thread` and `hint` re-export
//! shuttle's scheduler-controlled versions (a local item shadows the extern prelude, also
//! inside grouped `use std::{…}` imports). Everything else of std is passed through.
use std::io::Write;

fn main() {
    let src_path = "/repo/crates/lock/src/lib.rs";
    println!("cargo:rerun-if-changed={src_path}");
    println!("cargo:rerun-if-changed=build.rs");
    let src = std::fs::read_to_string(src_path).expect("read essential-lock source");
    let mut out = String::new();
    for line in src.lines() {
        let t = line.trim_start();
        if t.starts_with("//!") || t.starts_with("#![") {
            out.push('\n');
            continue;
        }
        out.push_str(line);
        out.push('\n');
    }
    // the lock must be built from something the scheduler controls
    let uses_sync = ["sync::", "sync,", "sync}", "thread::", "atomic"].iter().any(|p| src.contains(p));
    if !uses_sync {
        panic!("locksim build: {src_path} mentions no std::sync / std::thread item: the lock would run on a primitive the simulated scheduler does not control");
    }
    if src.contains("extern crate") || src.contains("::std::") || src.contains("::core::") {
        panic!("locksim build: absolute ::std / ::core paths or extern crate items escape the name shadowing; extend /verif/sim/locksim");
    }
    let dest = std::path::Path::new(&std::env::var("OUT_DIR").unwrap()).join("lock_under_shuttle.rs");
    let mut f = std::fs::File::create(dest).unwrap();
    f.write_all(out.as_bytes()).unwrap();
}
