//! E3 — `essential-lock` under shuttle, and the C20 family.

/// The real source of essential-lock. `std::sync`, `std::thread` and `std::hint` (and their
/// `core` twins) resolve to shuttle's scheduler-controlled versions through the local
/// `std` / `core` modules below; every other std item passes through unchanged.
#[allow(missing_docs, dead_code, unused_imports, clippy::all)]
pub mod lock {
    mod std {
        pub use ::std::*;
        pub mod sync {
            // std's items the scheduler need not control (error types, OnceLock, …) …
            pub use ::std::sync::*;
            // … shadowed by shuttle's primitives (explicit imports win over the glob)
            pub use shuttle::sync::{
                atomic, mpsc, Arc, Barrier, BarrierWaitResult, Condvar, Mutex, MutexGuard, Once,
                OnceState, RwLock, RwLockReadGuard, RwLockWriteGuard, WaitTimeoutResult, Weak,
            };
        }
        pub mod thread {
            pub use shuttle::thread::*;
        }
        pub mod hint {
            pub use ::std::hint::*;
            pub use shuttle::hint::spin_loop;
        }
        // thread-local storage must be per *simulated* thread
        pub use shuttle::thread_local;
    }
    // the prelude macro `thread_local!` (textual scope: must precede the include)
    #[allow(unused_macros)]
    macro_rules! thread_local {
        ($($t:tt)*) => { shuttle::thread_local! { $($t)* } };
    }
    mod core {
        pub use ::core::*;
        pub mod sync {
            pub use shuttle::sync::atomic;
        }
        pub mod hint {
            pub use ::core::hint::*;
            pub use shuttle::hint::spin_loop;
        }
    }
    include!(concat!(env!("OUT_DIR"), "/lock_under_shuttle.rs"));
}

pub mod c20;
