//! E3 — `essential-lock` under shuttle, and the C20 family.

/// The real source of essential-lock. `std::sync`, `std::thread` and `std::hint` (and their
/// `core` twins) resolve to shuttle's scheduler-controlled versions through the local
/// `std` / `core` modules below; every other std item passes through unchanged.
#[allow(missing_docs, dead_code, unused_imports, clippy::all)]
pub mod lock {
    mod std {
        pub use ::std::*;
        pub mod sync {
            // std's items the scheduler need not control (error types, OnceLock, …) …
            pub use ::std::sync::*;
            // … shadowed by shuttle's primitives (explicit imports win over the glob)
            pub use shuttle::sync::{
                atomic, mpsc, Arc, Barrier, BarrierWaitResult, Condvar, Mutex, MutexGuard, Once,
                OnceState, RwLock, RwLockReadGuard, RwLockWriteGuard, WaitTimeoutResult, Weak,
            };
        }
        pub mod thread {
            pub use shuttle::thread::*;
        }
        pub mod hint {
            pub use ::std::hint::*;
            pub use shuttle::hint::spin_loop;
        }
        // the clock is the simulator's: a lock that measures how long it was held must see
        // simulated time (one seed, one execution), not the wall clock of a loaded machine
        pub mod time {
            pub use ::std::time::*;
            pub use crate::simclock::Instant;
        }
        // thread-local storage must be per *simulated* thread
        pub use shuttle::thread_local;
    }
    // the prelude macro `thread_local!` (textual scope: must precede the include)
    #[allow(unused_macros)]
    macro_rules! thread_local {
        ($($t:tt)*) => { shuttle::thread_local! { $($t)* } };
    }
    mod core {
        pub use ::core::*;
        pub mod sync {
            pub use shuttle::sync::atomic;
        }
        pub mod hint {
            pub use ::core::hint::*;
            pub use shuttle::hint::spin_loop;
        }
    }
    include!(concat!(env!("OUT_DIR"), "/lock_under_shuttle.rs"));
}

/// Simulated time for the lock under test: advanced only by the harness (every scheduling
/// point inside or outside a closure is worth 10 microseconds, so the long closures of the
/// scenarios hold the lock for tens of milliseconds).
pub mod simclock {
    use std::cell::Cell;
    use std::ops::{Add, Sub};
    use std::time::Duration;
    thread_local! {
        static NOW_NS: Cell<u64> = const { Cell::new(1_000_000_000) };
    }
    pub fn reset() {
        NOW_NS.with(|c| c.set(1_000_000_000));
    }
    pub fn advance(ns: u64) {
        NOW_NS.with(|c| c.set(c.get().saturating_add(ns)));
    }
    #[derive(Clone, Copy, Debug, PartialEq, Eq, PartialOrd, Ord, Hash)]
    pub struct Instant(u64);
    impl Instant {
        pub fn now() -> Instant {
            Instant(NOW_NS.with(|c| c.get()))
        }
        pub fn elapsed(&self) -> Duration {
            Instant::now().duration_since(*self)
        }
        pub fn duration_since(&self, earlier: Instant) -> Duration {
            Duration::from_nanos(self.0.saturating_sub(earlier.0))
        }
        pub fn saturating_duration_since(&self, earlier: Instant) -> Duration {
            self.duration_since(earlier)
        }
        pub fn checked_duration_since(&self, earlier: Instant) -> Option<Duration> {
            self.0.checked_sub(earlier.0).map(Duration::from_nanos)
        }
        pub fn checked_add(&self, d: Duration) -> Option<Instant> {
            self.0.checked_add(d.as_nanos() as u64).map(Instant)
        }
        pub fn checked_sub(&self, d: Duration) -> Option<Instant> {
            self.0.checked_sub(d.as_nanos() as u64).map(Instant)
        }
    }
    impl Add<Duration> for Instant {
        type Output = Instant;
        fn add(self, d: Duration) -> Instant {
            Instant(self.0.saturating_add(d.as_nanos() as u64))
        }
    }
    impl Sub<Duration> for Instant {
        type Output = Instant;
        fn sub(self, d: Duration) -> Instant {
            Instant(self.0.saturating_sub(d.as_nanos() as u64))
        }
    }
    impl Sub<Instant> for Instant {
        type Output = Duration;
        fn sub(self, o: Instant) -> Duration {
            self.duration_since(o)
        }
    }
}

pub mod c20;
