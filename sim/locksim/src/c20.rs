//! C20: the lock serialises closures.
//!
//! Threads 2..16 apply read-modify-write closures to one or several locks. Every closure
//! ORs a distinct bit into the guarded value and returns what it read; scheduling points
//! inside and outside the critical section are part of the generated scenario. The oracle
//! is linear-time: sorted by popcount, the values read must form the chain
//! 0, d1, d1|d2, … (each update visible to all later closures, none lost or torn).

use crate::lock::StdLock;
use serde::{Deserialize, Serialize};
use serde_json::{json, Value as Json};
use simcore::driver::{BatchPlan, CaseOut, KnownFinding, PropText};
use simcore::oracle::{finding, ExecInfo, Finding};
use simcore::props::random_spec;
use simcore::rng::{derive, label, Rng};
use simcore::runner::{run_sim, SchedKind, SchedSpec, SimFailure};
use std::sync::Arc;

#[derive(Clone, Debug, Serialize, Deserialize, PartialEq)]
pub struct Step {
    pub lock: usize,
    /// scheduling points inside the critical section (before the write)
    pub inside: u16,
    /// scheduling points after the call
    pub outside: u8,
    /// while inside, also apply a closure to this other lock (always one with a higher
    /// index: consistent ordering, never re-entrant)
    #[serde(default)]
    pub nested: Option<usize>,
    /// the calling thread has a pending wake-up token when it calls `apply` (it unparked
    /// itself earlier: legal, and what a joined scope or an earlier hand-off leaves behind) —
    /// a lock that sleeps with `park` must not take the stale token for its own wake-up
    #[serde(default)]
    pub pre_unpark: bool,
}

#[derive(Clone, Debug, Serialize, Deserialize, PartialEq)]
pub struct LockScenario {
    pub n_locks: usize,
    pub threads: Vec<Vec<Step>>,
    pub spec: SchedSpec,
}

fn sp() {
    crate::simclock::advance(10_000);
    shuttle::thread::sleep(std::time::Duration::from_secs(0));
}

#[derive(Clone, Debug)]
struct Obs {
    lock: usize,
    read: u128,
    delta: u128,
    token: u64,
    returned_token: u64,
}

pub fn gen(rng: &mut Rng) -> LockScenario {
    let n_threads = match rng.below(10) {
        0 => 8 + rng.usize(9),
        1 | 2 => 4 + rng.usize(4),
        _ => 2 + rng.usize(2),
    };
    let n_locks = match rng.below(12) {
        0 => 60 + rng.usize(140), // a table of locks (address-dependent behaviour)
        _ => 1 + rng.usize(3),
    };
    let mut budget = 120usize; // at most 128 distinct bits
    let threads = (0..n_threads)
        .map(|_| {
            // a thread that finds the bit budget used up applies nothing
            let n = if budget < 2 { 0 } else { (1 + rng.usize(6)).min(budget / 2) };
            budget = budget.saturating_sub(2 * n);
            (0..n)
                .map(|_| {
                    let lock = rng.usize(n_locks);
                    Step {
                        lock,
                        // closures of varying duration: mostly short, now and then long enough to
                        // exhaust a waiter's patience (spin budgets, yield loops, back-off)
                        inside: match rng.below(48) {
                            0 => 5500 + rng.below(1500) as u16,
                            1..=4 => 150 + rng.below(100) as u16,
                            _ => rng.below(4) as u16,
                        },
                        outside: rng.below(3) as u8,
                        nested: if lock + 1 < n_locks && rng.chance(1, 6) {
                            Some(lock + 1 + rng.usize(n_locks - lock - 1))
                        } else {
                            None
                        },
                        pre_unpark: rng.chance(1, 5),
                    }
                })
                .collect()
        })
        .collect();
    LockScenario {
        n_locks,
        threads,
        spec: SchedSpec {
            kind: SchedKind::Random,
            seed: 0,
            workers: 1,
            per_op_switch: false,
        },
    }
}

pub fn evaluate(sc: &LockScenario) -> (Option<Finding>, Option<ExecInfo>) {
    let total: usize = sc.threads.iter().map(|t| t.len()).sum();
    if 2 * total > 128 {
        return (Some(finding("harness-error", "more closures than bits")), None);
    }
    let sc2 = sc.clone();
    let out = run_sim(&sc.spec, move || {
        crate::simclock::reset();
        let locks: Arc<Vec<StdLock<u128>>> = Arc::new((0..sc2.n_locks).map(|_| StdLock::new(0u128)).collect());
        let mut bit = 0u32;
        let mut handles = Vec::new();
        for (ti, steps) in sc2.threads.iter().enumerate() {
            let my: Vec<(Step, u128, u128, u64)> = steps
                .iter()
                .map(|s| {
                    let d = 1u128 << bit;
                    let d2 = 1u128 << (bit + 1);
                    bit += 2;
                    (s.clone(), d, d2, ((ti as u64) << 32) | bit as u64)
                })
                .collect();
            let locks = locks.clone();
            handles.push(shuttle::thread::spawn(move || {
                let mut obs = Vec::new();
                for (s, d, d2, token) in my {
                    let mut inner_obs = None;
                    if s.pre_unpark {
                        shuttle::thread::current().unpark();
                    }
                    let (read, returned_token) = locks[s.lock].apply(|v| {
                        let r = *v;
                        for _ in 0..s.inside {
                            sp();
                        }
                        if let Some(j) = s.nested {
                            // a different lock, always a higher index: legal, non-re-entrant nesting
                            let (r2, t2) = locks[j].apply(|w| {
                                let r2 = *w;
                                sp();
                                *w = r2 | d2;
                                (r2, token ^ 0xABCD)
                            });
                            inner_obs = Some(Obs {
                                lock: j,
                                read: r2,
                                delta: d2,
                                token: token ^ 0xABCD,
                                returned_token: t2,
                            });
                        }
                        *v = r | d;
                        (r, token)
                    });
                    obs.extend(inner_obs);
                    obs.push(Obs {
                        lock: s.lock,
                        read,
                        delta: d,
                        token,
                        returned_token,
                    });
                    for _ in 0..s.outside {
                        sp();
                    }
                }
                obs
            }));
        }
        let mut all: Vec<Obs> = Vec::new();
        for h in handles {
            all.extend(h.join().expect("worker thread"));
        }
        let finals: Vec<u128> = locks.iter().map(|l| l.apply(|v| *v)).collect();
        (all, finals)
    });
    let info = ExecInfo {
        steps: out.steps,
        context_switches: out.context_switches,
        order_hash: label(&format!("{:?}", out.trace.tasks)),
        regions_multi: 1,
        ..Default::default()
    };
    let f = match out.result {
        Err(SimFailure::Deadlock(m)) => Some(finding("lock-deadlock", m)),
        Err(SimFailure::Panic(p)) => Some(finding("lock-panic", format!("{} at {}", p.message, p.location))),
        Err(SimFailure::StepLimit) => Some(finding("lock-livelock", "step budget exceeded")),
        Err(e) => Some(finding("harness-error", format!("{e:?}"))),
        Ok((all, finals)) => check(sc, &all, &finals),
    };
    (f, Some(info))
}

fn check(sc: &LockScenario, all: &[Obs], finals: &[u128]) -> Option<Finding> {
    for o in all {
        if o.returned_token != o.token {
            return Some(finding("lock-wrong-return", format!("apply returned another closure's value: {:#x} vs {:#x}", o.returned_token, o.token)));
        }
    }
    for l in 0..sc.n_locks {
        let mut obs: Vec<&Obs> = all.iter().filter(|o| o.lock == l).collect();
        obs.sort_by_key(|o| o.read.count_ones());
        let mut cur: u128 = 0;
        for o in &obs {
            if o.read & o.delta != 0 {
                return Some(finding("lock-torn", format!("lock {l}: a closure read its own update ({:#x} in {:#x})", o.delta, o.read)));
            }
            if o.read != cur {
                return Some(finding(
                    "lock-lost-update",
                    format!("lock {l}: closures did not run one at a time: expected to read {cur:#x}, a closure read {:#x} (its update {:#x})", o.read, o.delta),
                ));
            }
            cur |= o.delta;
        }
        if finals[l] != cur {
            return Some(finding("lock-lost-update", format!("lock {l}: final value {:#x}, all updates {cur:#x}", finals[l])));
        }
    }
    None
}

// ---------------------------------------------------------------------------------
// family glue

pub fn plan(_prop: &str, tier: &str) -> Vec<BatchPlan> {
    vec![BatchPlan {
        name: "c20-lock".into(),
        cases: if tier == "thorough" { 6_000_000 } else { 60_000 },
        faulty: false,
    }]
}

pub fn scenario_for(run_seed: u64) -> LockScenario {
    let mut wl = Rng::new(derive(run_seed, &[label("workload")]));
    let mut sr = Rng::new(derive(run_seed, &[label("schedule")]));
    let mut sc = gen(&mut wl);
    sc.spec = random_spec(&mut sr, false);
    sc
}

#[derive(Clone, Debug, Serialize, Deserialize)]
pub enum LockPayload {
    Lock(LockScenario),
}

pub fn run_case(_prop: &str, _batch: &str, run_seed: u64) -> CaseOut {
    let sc = scenario_for(run_seed);
    let mut out = CaseOut {
        shape_hash: label(&format!("{:?}", sc.threads)),
        ..Default::default()
    };
    let (f, info) = evaluate(&sc);
    out.sample = Some(json!({
        "locks": sc.n_locks,
        "threads": sc.threads.iter().map(|t| t.iter().map(|s| format!("lock{} in{} out{}{}", s.lock, s.inside, s.outside, s.nested.map(|j| format!(" nested->lock{j}")).unwrap_or_default() + if s.pre_unpark { " pending-unpark" } else { "" })).collect::<Vec<_>>()).collect::<Vec<_>>(),
        "schedule": sc.spec.describe(),
    }));
    if let Some(i) = info {
        out.infos.push(i);
    }
    if let Some(f) = f {
        out.findings.push((f, serde_json::to_value(LockPayload::Lock(sc)).unwrap()));
    }
    out
}

pub fn replay(payload: &Json) -> Result<Option<Finding>, String> {
    let LockPayload::Lock(sc) = serde_json::from_value(payload.clone()).map_err(|e| e.to_string())?;
    Ok(evaluate(&sc).0)
}

pub fn shrink_payload(payload: &Json, class: &str) -> (Json, Json) {
    let Ok(LockPayload::Lock(sc)) = serde_json::from_value::<LockPayload>(payload.clone()) else {
        return (payload.clone(), json!({"minimised": false}));
    };
    let repro = |s: &LockScenario| evaluate(s).0.map(|f| f.class == class).unwrap_or(false);
    // a smaller scenario changes the shape of the schedule: search a few seeds for each candidate
    let repro_somehow = |s: &LockScenario| -> Option<LockScenario> {
        if repro(s) {
            return Some(s.clone());
        }
        for depth in 1..=3usize {
            for i in 0..24u64 {
                let mut c = s.clone();
                c.spec = SchedSpec {
                    kind: SchedKind::Pct(depth),
                    seed: derive(s.spec.seed, &[depth as u64, i]),
                    workers: 1,
                    per_op_switch: false,
                };
                if repro(&c) {
                    return Some(c);
                }
            }
        }
        None
    };
    let t0 = std::time::Instant::now();
    let mut cur = sc.clone();
    let (mut tried, mut kept) = (0u64, 0u64);
    let mut progress = true;
    while progress && t0.elapsed().as_secs() < 20 {
        progress = false;
        let mut cands: Vec<LockScenario> = Vec::new();
        for t in 0..cur.threads.len() {
            if cur.threads.len() > 2 {
                let mut c = cur.clone();
                c.threads.remove(t);
                cands.push(c);
            }
            for s in 0..cur.threads[t].len() {
                if cur.threads[t].len() > 1 {
                    let mut c = cur.clone();
                    c.threads[t].remove(s);
                    cands.push(c);
                }
                if cur.threads[t][s].outside > 0 {
                    let mut c = cur.clone();
                    c.threads[t][s].outside = 0;
                    cands.push(c);
                }
                if cur.threads[t][s].inside > 1 {
                    let mut c = cur.clone();
                    c.threads[t][s].inside = 1;
                    cands.push(c);
                }
                if cur.threads[t][s].nested.is_some() {
                    let mut c = cur.clone();
                    c.threads[t][s].nested = None;
                    cands.push(c);
                }
                if cur.threads[t][s].pre_unpark {
                    let mut c = cur.clone();
                    c.threads[t][s].pre_unpark = false;
                    cands.push(c);
                }
            }
        }
        if cur.n_locks > 1 {
            let mut c = cur.clone();
            c.n_locks = 1;
            for t in c.threads.iter_mut() {
                for s in t.iter_mut() {
                    s.lock = 0;
                    s.nested = None;
                }
            }
            cands.push(c);
        }
        for c in cands {
            tried += 1;
            if let Some(c2) = repro_somehow(&c) {
                cur = c2;
                kept += 1;
                progress = true;
                break;
            }
            if t0.elapsed().as_secs() >= 20 {
                break;
            }
        }
    }
    let size = |s: &LockScenario| json!({"threads": s.threads.len(), "closures": s.threads.iter().map(|t| t.len()).sum::<usize>(), "locks": s.n_locks});
    (
        serde_json::to_value(LockPayload::Lock(cur.clone())).unwrap(),
        json!({"minimised": true, "candidates_tried": tried, "candidates_kept": kept, "before": size(&sc), "after": size(&cur), "schedule": cur.spec.describe()}),
    )
}

pub fn known(_p: &str, _payload: &Json, _class: &str, _k: &[KnownFinding]) -> Option<String> {
    None
}

pub fn describe(_prop: &str) -> PropText {
    PropText {
        level: "exploration",
        rule: "cases = 2..16 simulated threads x 1..6 read-modify-write closures each on 1..3 locks (1 in 12: a table of 60..200 locks), with 0..3 scheduling points inside the critical section (1 in 12: 150-250, 1 in 48: 5500-7000) and 0..2 outside, 1 in 6 closures nesting a closure on a higher-indexed lock, 1 in 5 calls made with a pending unpark token (stale wake-up fault), each case under one seeded schedule (random / PCT depth 1-4 / URW); every closure ORs a distinct bit and returns what it read; oracle: reads sorted by popcount form the chain of all earlier updates, the final value holds every update, every call returns its own closure's value, the deadlock detector never fires. distinct = distinct (scenario shape, order in which tasks were scheduled); non-trivial = at least one context switch".into(),
        assumptions: vec![
            "the lock's source is the real file from /repo's working tree, re-read at every build; only the path prefixes std::sync:: / std::thread:: are replaced by shuttle's so that the scheduler controls the primitive (E3). Engine E2 runs the untouched crate on real std primitives under Miri's seeded scheduler".into(),
            "shuttle's Mutex models std::sync::Mutex (mutual exclusion, poisoning)".into(),
            "schedules are sampled".into(),
        ],
        real_vs_stub: json!({
            "real": ["essential-lock source text (StdLock::new, StdLock::apply)"],
            "stub": {"std::sync::Mutex": "shuttle::sync::Mutex (scheduler-controlled)", "threads": "shuttle tasks"},
        }),
    }
}

pub const FAMILY: simcore::driver::Family = simcore::driver::Family {
    plan,
    run_case,
    replay,
    shrink: shrink_payload,
    known,
    describe,
};
