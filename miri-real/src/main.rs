//! E2 — everything real, Miri is the simulator.
//!
//!   miri-real lock <workload-seed>       C20: untouched essential-lock on real std threads
//!   miri-real checker <workload-seed>    C02/C10: the real checker on real rayon pools of 1..4
//!                                        threads; the result must equal the 1-thread result
//!
//! One Miri seed (-Zmiri-seed / -Zmiri-many-seeds) = one exactly repeatable schedule with
//! pre-emption at basic-block granularity. The workload seed comes in argv (never env:
//! cargo-miri replays build-time env). Exit 0 = held, 1 = violation (one line on stdout).

use essential_asm as asm;
use essential_asm::Op;
use essential_check::solution::{self as sol, CheckPredicateConfig, PredicatesError};
use essential_types::{
    predicate::{Node, Predicate, Program},
    solution::{Mutation, Solution, SolutionSet},
    ContentAddress, Key, PredicateAddress, Word,
};
use essential_vm::StateRead;
use std::collections::HashMap;
use std::sync::Arc;

struct Rng(u64);
impl Rng {
    fn next(&mut self) -> u64 {
        self.0 = self.0.wrapping_add(0x9E3779B97F4A7C15);
        let mut z = self.0;
        z = (z ^ (z >> 30)).wrapping_mul(0xBF58476D1CE4E5B9);
        z = (z ^ (z >> 27)).wrapping_mul(0x94D049BB133111EB);
        z ^ (z >> 31)
    }
    fn below(&mut self, n: u64) -> u64 {
        self.next() % n
    }
}

// ---------------------------------------------------------------------------------
// C20

/// Calls `apply` from a destructor: used to make a clean call while the thread unwinds from a
/// panic that has nothing to do with the lock.
struct ApplyOnDrop<'a> {
    lock: &'a essential_lock::StdLock<u64>,
    d: u64,
    token: u64,
    out: &'a std::cell::Cell<Option<(u64, u64)>>,
}
impl Drop for ApplyOnDrop<'_> {
    fn drop(&mut self) {
        let (d, token) = (self.d, self.token);
        let r = self.lock.apply(|v| {
            let r = *v;
            std::thread::yield_now();
            *v = r | d;
            (r, token)
        });
        self.out.set(Some(r));
    }
}

/// A thread-local whose destructor makes one more `apply` when the thread exits (a "flush at
/// exit"). It is initialised before the thread's first ordinary `apply`, so it outlives any
/// thread-local the lock itself may keep.
struct FlushAtExit(std::cell::RefCell<Option<(Arc<Vec<essential_lock::StdLock<u64>>>, usize, u64)>>);
impl Drop for FlushAtExit {
    fn drop(&mut self) {
        if let Some((locks, l, d)) = self.0.borrow_mut().take() {
            // an update like any other: what it read takes its place in the chain
            let read = locks[l].apply(|v| {
                let r = *v;
                *v = r | d;
                r
            });
            EXIT_OBS.lock().unwrap().push((l, read, d, 0, 0));
        }
    }
}
/// What the updates made from thread-local destructors read (those threads have no other way
/// to report back).
static EXIT_OBS: std::sync::Mutex<Vec<(usize, u64, u64, u64, u64)>> = std::sync::Mutex::new(Vec::new());
thread_local! {
    static FLUSH: FlushAtExit = const { FlushAtExit(std::cell::RefCell::new(None)) };
}

fn lock_mode(seed: u64) -> i32 {
    use essential_lock::StdLock;
    // deliberate panics (outside `apply`) are part of the scenario: keep them quiet
    std::panic::set_hook(Box::new(|_| {}));
    let mut rng = Rng(seed);
    let n_threads = 2 + rng.below(3) as usize;
    let n_locks = 1 + rng.below(2) as usize;
    let locks: Arc<Vec<StdLock<u64>>> = Arc::new((0..n_locks).map(|_| StdLock::new(0u64)).collect());
    let mut bit = 0u32;
    let mut handles = Vec::new();
    let mut n_unwind = 0;
    let mut n_unpark = 0;
    let mut exit_updates: Vec<(usize, u64)> = Vec::new();
    for t in 0..n_threads {
        let n = 1 + rng.below(3) as usize;
        // (lock, delta, inside, outside, stale wake-up token pending, call made while unwinding)
        let steps: Vec<(usize, u64, u64, u64, bool, bool)> = (0..n)
            .map(|_| {
                let d = 1u64 << bit;
                bit += 1;
                let unpark = rng.below(4) == 0;
                let unwind = rng.below(5) == 0;
                n_unpark += unpark as u32;
                n_unwind += unwind as u32;
                (rng.below(n_locks as u64) as usize, d, rng.below(5), rng.below(3), unpark, unwind)
            })
            .collect();
        let locks = locks.clone();
        // one thread in three leaves an update to be made by a thread-local destructor
        let flush = if rng.below(3) == 0 && bit < 60 {
            let d = 1u64 << bit;
            bit += 1;
            Some((rng.below(n_locks as u64) as usize, d))
        } else {
            None
        };
        if let Some((l, d)) = flush {
            exit_updates.push((l, d));
        }
        handles.push(std::thread::spawn(move || {
            if let Some((l, d)) = flush {
                FLUSH.with(|f| *f.0.borrow_mut() = Some((locks.clone(), l, d)));
            }
            let mut obs = Vec::new();
            for (l, d, inside, outside, unpark, unwind) in steps {
                let token = ((t as u64) << 32) | d.trailing_zeros() as u64;
                if unpark {
                    // a wake-up token left over from earlier (legal): a lock that sleeps with
                    // `park` must not mistake it for its own wake-up
                    std::thread::current().unpark();
                }
                let (read, tok) = if unwind {
                    // the thread panics outside any `apply`; a destructor makes a clean call
                    // while it unwinds. The call must behave like any other, and leave the
                    // lock usable.
                    let out = std::cell::Cell::new(None);
                    let caught = std::panic::catch_unwind(std::panic::AssertUnwindSafe(|| {
                        let _g = ApplyOnDrop { lock: &locks[l], d, token, out: &out };
                        if inside < 100 {
                            panic!("deliberate panic outside apply");
                        }
                    }));
                    assert!(caught.is_err());
                    out.get().expect("the destructor ran")
                } else {
                    locks[l].apply(|v| {
                        let r = *v;
                        // work of varying duration inside the critical section
                        let mut x = 0u64;
                        for i in 0..(inside % 4) * 3 {
                            x = x.wrapping_add(i);
                            std::thread::yield_now();
                        }
                        std::hint::black_box(x);
                        if inside >= 4 {
                            // a long closure: 1.5 s of (Miri's virtual) time inside the critical section
                            std::thread::sleep(std::time::Duration::from_millis(1500));
                        }
                        *v = r | d;
                        (r, token)
                    })
                };
                obs.push((l, read, d, token, tok));
                for _ in 0..outside {
                    std::thread::yield_now();
                }
            }
            obs
        }));
    }
    let mut all = Vec::new();
    for h in handles {
        match h.join() {
            Ok(o) => all.extend(o),
            Err(p) => {
                let msg = p.downcast_ref::<String>().cloned().or_else(|| p.downcast_ref::<&str>().map(|s| s.to_string())).unwrap_or_default();
                println!("VIOLATION-DETAIL lock seed={seed}: a call to apply did not return its closure's value, the thread panicked: {msg}");
                return 1;
            }
        }
    }
    // joined threads have run their thread-local destructors
    let at_exit: Vec<_> = EXIT_OBS.lock().unwrap().drain(..).collect();
    if at_exit.len() != exit_updates.len() {
        println!("VIOLATION-DETAIL lock seed={seed}: {} updates were to be made at thread exit, {} were made", exit_updates.len(), at_exit.len());
        return 1;
    }
    all.extend(at_exit);
    for l in 0..n_locks {
        let mut obs: Vec<_> = all.iter().filter(|o| o.0 == l).collect();
        obs.sort_by_key(|o| o.1.count_ones());
        let mut cur = 0u64;
        for o in &obs {
            if o.3 != o.4 {
                println!("VIOLATION-DETAIL lock: apply returned another closure's value");
                return 1;
            }
            if o.1 != cur {
                println!("VIOLATION-DETAIL lock {l}: expected to read {cur:#x}, a closure read {:#x} (update {:#x}): lost or torn update", o.1, o.2);
                return 1;
            }
            cur |= o.2;
        }
        let fin = match std::panic::catch_unwind(std::panic::AssertUnwindSafe(|| locks[l].apply(|v| *v))) {
            Ok(v) => v,
            Err(p) => {
                let msg = p.downcast_ref::<String>().cloned().or_else(|| p.downcast_ref::<&str>().map(|s| s.to_string())).unwrap_or_default();
                println!("VIOLATION-DETAIL lock {l} seed={seed}: a later apply panicked although no closure ever panicked: {msg}");
                return 1;
            }
        };
        if fin != cur {
            println!("VIOLATION-DETAIL lock {l}: final value {fin:#x}, all updates {cur:#x}");
            return 1;
        }
    }
    // Last: a closure changes the value and then panics (the caller contains the panic). The
    // update it left behind is half-applied by definition; no later closure may be run on it as
    // if nothing had happened.
    if seed % 3 == 0 {
        let l = 0;
        let r = std::panic::catch_unwind(std::panic::AssertUnwindSafe(|| {
            locks[l].apply(|v| {
                *v ^= 1 << 63;
                if *v != 0 {
                    panic!("deliberate panic inside a closure, after a partial update");
                }
            })
        }));
        assert!(r.is_err());
        let after = std::panic::catch_unwind(std::panic::AssertUnwindSafe(|| locks[l].apply(|v| *v)));
        if let Ok(v) = after {
            println!("VIOLATION-DETAIL lock {l} seed={seed}: a closure panicked after changing the value; a later apply ran on the half-applied update ({v:#x}) as if nothing had happened");
            return 1;
        }
    }
    println!("ok lock seed={seed} threads={n_threads} locks={n_locks} closures={bit} stale_unpark={n_unpark} during_unwind={n_unwind} at_thread_exit={}", exit_updates.len());
    0
}

// ---------------------------------------------------------------------------------
// C02 / C10

#[derive(Clone)]
struct State(Arc<HashMap<(ContentAddress, Key), Vec<Word>>>);
impl StateRead for State {
    type Error = String;
    fn key_range(&self, c: ContentAddress, mut key: Key, n: usize) -> Result<Vec<Vec<Word>>, String> {
        let mut out = Vec::new();
        for _ in 0..n {
            out.push(self.0.get(&(c.clone(), key.clone())).cloned().unwrap_or_default());
            match key.last_mut() {
                Some(l) if *l < Word::MAX => *l += 1,
                _ => break,
            }
        }
        Ok(out)
    }
}

fn push(w: Word) -> Op {
    Op::Stack(asm::Stack::Push(w))
}

/// Fold the input into one word cheaply (SHA-256 is far too slow under an interpreter):
/// stack := [stack length, memory length].
fn hash_all() -> Vec<Op> {
    vec![
        push(0), asm::Stack::Reserve.into(), // [.., L]
        push(0), asm::Memory::Alloc.into(),  // [.., L, M]
    ]
}

/// A compute node: fan out `breadth` children, each stores its index (children in `failing`
/// panic), optionally asking PredicateExists (shared lazy cache).
fn compute_node(tag: Word, breadth: Word, failing: &[Word], pex: Option<[Word; 4]>) -> Vec<Op> {
    let mut v = vec![push(tag), asm::Stack::Pop.into()];
    v.extend(hash_all());
    v.push(push(breadth));
    v.push(asm::Compute::Compute.into());
    for f in failing {
        v.extend([asm::Stack::Dup.into(), push(*f), asm::Pred::Eq.into(), asm::TotalControlFlow::PanicIf.into()]);
    }
    if let Some(h) = pex {
        // every child asks the shared lazily initialised cache for a solution that exists and
        // fails if it is not found
        for w in h {
            v.push(push(w));
        }
        let tail: [Op; 3] = [asm::Access::PredicateExists.into(), asm::Pred::Not.into(), asm::TotalControlFlow::PanicIf.into()];
        v.extend(tail);
    }
    v.extend([push(1), asm::Memory::Alloc.into(), asm::Stack::Pop.into()]);
    v.extend([asm::Stack::Dup.into(), push(0), asm::Memory::Store.into()]);
    v.push(asm::Compute::ComputeEnd.into());
    v.push(push(tag));
    v
}

/// The words under which `PredicateExists` finds a solution.
fn pex_words(data: &[Vec<Word>], contract: &ContentAddress, predicate: &ContentAddress) -> [Word; 4] {
    let mut words: Vec<Word> = Vec::new();
    for slot in data {
        words.push(slot.len() as Word);
        words.extend_from_slice(slot);
    }
    words.extend(essential_types::convert::word_4_from_u8_32(contract.0));
    words.extend(essential_types::convert::word_4_from_u8_32(predicate.0));
    essential_types::convert::word_4_from_u8_32(essential_hash::hash_words(&words))
}

fn digest_node(tag: Word) -> Vec<Op> {
    let mut v = vec![push(tag), asm::Stack::Pop.into()];
    v.extend(hash_all());
    v.push(push(tag));
    v
}

fn data_leaf(tag: Word, key0: Word) -> Vec<Op> {
    // memory = [1, 1, key0, 1, tag], stack = [2]
    let mut v = vec![push(tag), asm::Stack::Pop.into()];
    v.extend([push(0), asm::Stack::Reserve.into(), asm::Stack::Drop.into()]);
    v.extend([push(0), asm::Memory::Free.into()]);
    v.extend([push(5), asm::Memory::Alloc.into(), asm::Stack::Pop.into()]);
    v.extend([push(1), push(1), push(key0), push(1), push(tag), push(5), push(0), asm::Memory::StoreRange.into()]);
    v.push(push(2));
    v
}

fn true_leaf(tag: Word, fail: bool) -> Vec<Op> {
    let mut v = vec![push(tag), asm::Stack::Pop.into()];
    v.extend([push(0), asm::Stack::Reserve.into(), asm::Stack::Drop.into()]);
    if fail {
        v.extend([push(1), asm::TotalControlFlow::PanicIf.into()]);
    }
    v.push(push(1));
    v
}

fn post_leaf(tag: Word, key0: Word) -> Vec<Op> {
    // read one post-state key into memory, then succeed
    let mut v = vec![push(tag), asm::Stack::Pop.into()];
    v.extend([push(0), asm::Stack::Reserve.into(), asm::Stack::Drop.into()]);
    v.extend([push(0), asm::Memory::Free.into(), push(4), asm::Memory::Alloc.into(), asm::Stack::Pop.into()]);
    v.extend([push(key0), push(1), push(1), push(0), asm::StateRead::PostKeyRange.into()]);
    v.push(push(1));
    v
}

type Built = (SolutionSet, HashMap<PredicateAddress, Arc<Predicate>>, HashMap<ContentAddress, Arc<Program>>, State);

fn build(seed: u64) -> Built {
    build_n(seed, 1)
}

fn build_n(seed: u64, min_sols: usize) -> Built {
    let mut rng = Rng(seed);
    let mut programs: HashMap<ContentAddress, Arc<Program>> = HashMap::new();
    let mut predicates = HashMap::new();
    let mut solutions = Vec::new();
    let n_sols = min_sols + rng.below(2) as usize;
    for s in 0..n_sols {
        let t = 1000 * (s as Word + 1);
        // graph: root(compute) -> {mid1(compute), mid2(digest)} -> leaves
        let breadth = 2 + rng.below(4) as Word;
        let failing: Vec<Word> = if rng.below(4) == 0 { (0..breadth).filter(|_| rng.below(2) == 0).collect() } else { vec![] };
        let contract = ContentAddress([s as u8 % 2 + 1; 32]);
        let pred_addr = ContentAddress([100 + s as u8; 32]);
        let data = vec![vec![s as Word, (seed % 1000) as Word]];
        let me = pex_words(&data, &contract, &pred_addr);
        let progs: Vec<Vec<Op>> = vec![
            compute_node(t + 1, breadth, &[], if rng.below(2) == 0 { Some(me) } else { None }),
            compute_node(t + 2, 2 + rng.below(3) as Word, &failing, Some(me)),
            digest_node(t + 3),
            data_leaf(t + 4, 70 + s as Word),
            true_leaf(t + 5, rng.below(8) == 0),
            true_leaf(t + 6, rng.below(8) == 0),
            post_leaf(t + 7, 70 + rng.below(n_sols as u64) as Word),
        ];
        let addrs: Vec<ContentAddress> = progs
            .iter()
            .map(|ops| {
                let p = Program(asm::to_bytes(ops.iter().copied()).collect());
                let mut ab = [0u8; 32];
                ab[0] = s as u8;
                ab[1] = programs.len() as u8;
                let a = ContentAddress(ab);
                programs.insert(a.clone(), Arc::new(p));
                a
            })
            .collect();
        // nodes 0..2 inner (contiguous), 3..6 leaves
        let edges: Vec<u16> = vec![1, 2, 3, 4, 5, 6];
        let starts = [0u16, 2, 4, u16::MAX, u16::MAX, u16::MAX, u16::MAX];
        let pred = Predicate {
            nodes: (0..7).map(|i| Node { edge_start: starts[i], program_address: addrs[i].clone() }).collect(),
            edges,
        };
        let pa = PredicateAddress { contract, predicate: pred_addr };
        predicates.insert(pa.clone(), Arc::new(pred));
        solutions.push(Solution {
            predicate_to_solve: pa,
            predicate_data: data,
            state_mutations: if rng.below(2) == 0 { vec![Mutation { key: vec![60 + s as Word], value: vec![s as Word] }] } else { vec![] },
        });
    }
    let mut st = HashMap::new();
    st.insert((ContentAddress([1; 32]), vec![70]), vec![5]);
    (SolutionSet { solutions }, predicates, programs, State(Arc::new(st)))
}

fn project(r: Result<(u64, SolutionSet), PredicatesError<String>>) -> String {
    match r {
        Ok((gas, set)) => format!(
            "Ok gas={gas} muts={:?}",
            set.solutions.iter().map(|s| s.state_mutations.clone()).collect::<Vec<_>>()
        ),
        Err(PredicatesError::Failed(e)) => {
            let mut s = String::from("Err ");
            for (ix, pe) in &e.0 {
                s.push_str(&format!("[{ix}: "));
                match pe {
                    sol::PredicateError::ProgramErrors(p) => {
                        for (n, e) in p.entries() {
                            let kind = match e {
                                sol::ProgramError::Vm(x) => format!("vm@{}:{}", x.0, errname(&x.1)),
                                other => format!("{other}").chars().take(20).collect(),
                            };
                            s.push_str(&format!("node{n}={kind} "));
                        }
                    }
                    other => s.push_str(&format!("{other}").replace('\n', " ")),
                }
                s.push(']');
            }
            s
        }
        Err(e) => format!("Err {e}"),
    }
}

fn errname(e: &essential_vm::error::OpError<String>) -> String {
    // the variant name only: which compute child's error is kept is not deterministic
    let d = format!("{e:?}");
    d.split(|c: char| !c.is_alphanumeric()).next().unwrap_or("").to_string()
}

fn run_on(pool: &rayon::ThreadPool, b: &Built, collect_all: bool) -> String {
    let (set, preds, progs, st) = b;
    let r = pool.install(|| {
        sol::check_and_compute_solution_set_two_pass(
            st,
            set.clone(),
            Arc::new(preds.clone()),
            Arc::new(progs.clone()),
            Arc::new(CheckPredicateConfig { collect_all_failures: collect_all }),
        )
    });
    project(r)
}

fn pool(threads: usize) -> rayon::ThreadPool {
    rayon::ThreadPoolBuilder::new().num_threads(threads).build().expect("pool")
}

/// Two different sets checked one after the other on the same pool of k threads (history:
/// whatever a worker thread remembers from the first check must not leak into the second),
/// each compared with its result on a fresh one-thread pool.
fn checker_mode(seed: u64) -> i32 {
    let a = build(seed);
    let b = build(seed.wrapping_mul(7919).wrapping_add(13));
    let collect_all = seed % 2 == 0;
    let k = 2 + (seed % 3) as usize;
    let shared = pool(k);
    let got_a = run_on(&shared, &a, collect_all);
    // drop the first set's allocations so that the second may be placed where the first was
    let ref_a = run_on(&pool(1), &a, collect_all);
    drop(a);
    let got_b = run_on(&shared, &b, collect_all);
    let ref_b = run_on(&pool(1), &b, collect_all);
    if got_a != ref_a {
        println!("VIOLATION-DETAIL checker seed={seed}: first set, 1 thread: {ref_a} | {k} threads: {got_a}");
        return 1;
    }
    if got_b != ref_b {
        println!("VIOLATION-DETAIL checker seed={seed}: second set on the same {k}-thread pool: {got_b} | fresh 1-thread pool: {ref_b}");
        return 1;
    }
    println!("ok checker seed={seed} threads={k} results={} | {}", &ref_a[..ref_a.len().min(40)], &ref_b[..ref_b.len().min(40)]);
    0
}

/// C20, the panic path: one thread's closure updates the value and then panics while other
/// threads are blocked in `apply` on the same lock. Nobody may hang; calls that return do so
/// with their closure's value and fit the chain of updates; once the panicking call is over no
/// later closure runs on what it left behind as if nothing had happened.
fn poison_mode(seed: u64) -> i32 {
    use essential_lock::StdLock;
    use std::sync::atomic::{AtomicBool, AtomicU64, Ordering};
    std::panic::set_hook(Box::new(|_| {}));
    let mut rng = Rng(seed);
    let n_threads = 3 + rng.below(2) as usize;
    let lock = Arc::new(StdLock::new(0u64));
    let had_panic = Arc::new(AtomicBool::new(false));
    let poison_over = Arc::new(AtomicBool::new(false));
    let stash = Arc::new(AtomicU64::new(u64::MAX));
    let mut bit = 0u32;
    let mut handles = Vec::new();
    for t in 0..n_threads {
        let n = 1 + rng.below(3) as usize;
        let steps: Vec<(u64, u64)> = (0..n)
            .map(|_| {
                bit += 1;
                (1u64 << (bit - 1), rng.below(3))
            })
            .collect();
        let long = rng.below(2) == 0;
        let (lock, had_panic, poison_over, stash) = (lock.clone(), had_panic.clone(), poison_over.clone(), stash.clone());
        handles.push(std::thread::spawn(move || -> Result<Vec<(u64, u64)>, String> {
            let mut obs = Vec::new();
            for (i, (d, spin)) in steps.iter().copied().enumerate() {
                let poisoner = t == 0 && i + 1 == n;
                let after = poison_over.load(Ordering::SeqCst);
                let r = std::panic::catch_unwind(std::panic::AssertUnwindSafe(|| {
                    lock.apply(|v| {
                        let r = *v;
                        for _ in 0..spin {
                            std::thread::yield_now();
                        }
                        *v = r | d;
                        if poisoner {
                            stash.store(r, Ordering::SeqCst);
                            had_panic.store(true, Ordering::SeqCst);
                            if long {
                                // long enough for the others to pile up behind the lock
                                std::thread::sleep(std::time::Duration::from_millis(1500));
                            }
                            panic!("deliberate panic inside a closure, after its update");
                        }
                        r
                    })
                }));
                match r {
                    Ok(read) if after => {
                        return Err(format!("a closure panicked after changing the value; a later apply ran on what it left ({read:#x}) as if nothing had happened"));
                    }
                    Ok(read) => obs.push((read, d)),
                    Err(_) if poisoner => {
                        obs.push((stash.load(Ordering::SeqCst), d));
                        poison_over.store(true, Ordering::SeqCst);
                    }
                    Err(_) if had_panic.load(Ordering::SeqCst) => break, // refused: the lock is poisoned
                    Err(_) => return Err("apply panicked although no closure had panicked".into()),
                }
            }
            Ok(obs)
        }));
    }
    let mut all = Vec::new();
    for h in handles {
        match h.join() {
            Ok(Ok(o)) => all.extend(o),
            Ok(Err(m)) => {
                println!("VIOLATION-DETAIL poison seed={seed}: {m}");
                return 1;
            }
            Err(_) => {
                println!("VIOLATION-DETAIL poison seed={seed}: a thread died");
                return 1;
            }
        }
    }
    all.sort_by_key(|o| o.0.count_ones());
    let mut cur = 0u64;
    for (read, d) in &all {
        if *read != cur {
            println!("VIOLATION-DETAIL poison seed={seed}: expected to read {cur:#x}, a closure read {read:#x} (update {d:#x}): lost or torn update");
            return 1;
        }
        cur |= d;
    }
    println!("ok poison seed={seed} threads={n_threads} calls_that_returned={}", all.len());
    0
}

/// C04: the same set delivered in another order, on the same real pool: same verdict, same
/// total gas, same computed mutations per solution.
fn perm_mode(seed: u64) -> i32 {
    let a = build_n(seed, 2);
    let k = 2 + (seed % 3) as usize;
    let shared = pool(k);
    let collect_all = seed % 2 == 0;
    let run = |b: &Built| {
        let (set, preds, progs, st) = b;
        shared.install(|| {
            sol::check_and_compute_solution_set_two_pass(
                st,
                set.clone(),
                Arc::new(preds.clone()),
                Arc::new(progs.clone()),
                Arc::new(CheckPredicateConfig { collect_all_failures: collect_all }),
            )
        })
    };
    let r1 = run(&a);
    // reverse the order of the members
    let n = a.0.solutions.len();
    let mut rev = a.0.clone();
    rev.solutions.reverse();
    let b: Built = (rev, a.1.clone(), a.2.clone(), a.3.clone());
    let r2 = run(&b);
    match (&r1, &r2) {
        (Ok((g1, s1)), Ok((g2, s2))) => {
            if g1 != g2 {
                println!("VIOLATION-DETAIL perm seed={seed}: total gas {g1} in one order, {g2} in the reverse order ({k} threads)");
                return 1;
            }
            for i in 0..n {
                if s1.solutions[i].state_mutations != s2.solutions[n - 1 - i].state_mutations {
                    println!("VIOLATION-DETAIL perm seed={seed}: mutations of solution {i} differ between the two orders");
                    return 1;
                }
            }
        }
        (Err(_), Err(_)) => {}
        _ => {
            println!("VIOLATION-DETAIL perm seed={seed}: verdict {} in one order, {} in the reverse order", project(r1), project(r2));
            return 1;
        }
    }
    println!("ok perm seed={seed} threads={k} solutions={n} verdict={}", if r1.is_ok() { "Ok" } else { "Err" });
    0
}

// ---------------------------------------------------------------------------------
// C10 on the bare VM: children end at index-dependent positions (a sled of ComputeEnd),
// allocate index-dependent memory and read the parent's memory; the parent must resume at
// the furthest position, with memory = old ++ children in index order — whatever the
// real pool does.

fn vm_mode(seed: u64) -> i32 {
    use essential_vm::{Access, GasLimit, Vm};
    let mut rng = Rng(seed);
    let breadth = 2 + rng.below(7) as Word;
    let threads = 2 + rng.below(3) as usize;
    let mut ops: Vec<Op> = vec![push(41), push(1), asm::Memory::Alloc.into(), asm::Memory::Store.into()];
    ops.extend([push(breadth), asm::Compute::Compute.into()]);
    // child: memory = [i, parent_mem[0]], then jump onto sled[i]
    ops.extend([push(2), asm::Memory::Alloc.into(), asm::Stack::Pop.into()]);
    ops.extend([asm::Stack::Dup.into(), push(0), asm::Memory::Store.into()]);
    ops.extend([push(0), asm::ParentMemory::Load.into(), push(1), asm::Memory::Store.into()]);
    ops.extend([push(1), asm::Alu::Add.into(), push(1), asm::TotalControlFlow::JumpIf.into()]);
    for _ in 0..breadth {
        ops.push(asm::Compute::ComputeEnd.into());
    }
    ops.push(push(99));
    let mut expect_mem: Vec<Word> = vec![41];
    for i in 0..breadth {
        expect_mem.extend([i, 41]);
    }
    let access = Access {
        solutions: Arc::new(vec![Solution {
            predicate_to_solve: PredicateAddress { contract: ContentAddress([1; 32]), predicate: ContentAddress([2; 32]) },
            predicate_data: vec![],
            state_mutations: vec![],
        }]),
        index: 0,
    };
    let st = State(Arc::new(HashMap::new()));
    let pool = rayon::ThreadPoolBuilder::new().num_threads(threads).build().expect("pool");
    let mut vm = Vm::default();
    let r = pool.install(|| vm.exec_ops(&ops, access, &(st.clone(), st.clone()), &|_: &Op| 1, GasLimit::UNLIMITED));
    let ok = r.is_ok() && vm.pc == ops.len() && vm.stack[..] == [99] && vm.memory[..] == expect_mem[..];
    if !ok {
        println!(
            "VIOLATION-DETAIL vm seed={seed} breadth={breadth} threads={threads}: result {:?} pc {} (expected {}) stack {:?} memory {:?} (expected {:?})",
            r.map_err(|e| e.to_string()), vm.pc, ops.len(), &vm.stack[..], &vm.memory[..], expect_mem
        );
        return 1;
    }
    println!("ok vm seed={seed} breadth={breadth} threads={threads} gas={:?}", r.ok());
    0
}

fn main() {
    let a: Vec<String> = std::env::args().collect();
    let seed: u64 = a.get(2).and_then(|s| s.parse().ok()).unwrap_or(1);
    let code = match a.get(1).map(|s| s.as_str()) {
        Some("lock") => lock_mode(seed),
        Some("checker") => checker_mode(seed),
        Some("perm") => perm_mode(seed),
        Some("poison") => poison_mode(seed),
        Some("vm") => vm_mode(seed),
        _ => {
            eprintln!("usage: miri-real lock|checker <workload-seed>");
            2
        }
    };
    std::process::exit(code);
}
